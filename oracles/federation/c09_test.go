package federation

import (
	"strings"
	"fmt"
	"os"
	"reflect"
	"sort"
	"testing"
)

// ---- independent oracle for the nullability lattice (written from the property statement)
// shape of a type ref: list of wrappers from the outside in, then the named leaf. nonNull[i] belongs to level i.
type verifShape struct {
	lists   int    // number of LIST levels
	nonNull []bool // nonNull[i]: level i (0 = outermost, lists = the leaf) carries NON_NULL
	kind    string
	name    string
}

func verifShapeOf(t *introspectionTypeRef) (verifShape, bool) {
	s := verifShape{}
	for {
		nn := false
		if t != nil && t.Kind == "NON_NULL" {
			nn = true
			t = t.OfType
		}
		if t == nil || t.Kind == "NON_NULL" {
			return s, false
		}
		s.nonNull = append(s.nonNull, nn)
		if t.Kind == "LIST" {
			s.lists++
			t = t.OfType
			continue
		}
		s.kind, s.name = t.Kind, t.Name
		return s, true
	}
}

// expected merge: same shape required; input: non-null if any side requires it; output: only if both guarantee it.
func verifMergeShapes(a, b verifShape, isInput bool) (verifShape, bool) {
	if a.lists != b.lists || a.kind != b.kind || a.name != b.name {
		return verifShape{}, false
	}
	r := verifShape{lists: a.lists, kind: a.kind, name: a.name}
	for i := range a.nonNull {
		if isInput {
			r.nonNull = append(r.nonNull, a.nonNull[i] || b.nonNull[i])
		} else {
			r.nonNull = append(r.nonNull, a.nonNull[i] && b.nonNull[i])
		}
	}
	return r, true
}

func verifRefs() []*introspectionTypeRef {
	leaf := func(n string) *introspectionTypeRef { return &introspectionTypeRef{Kind: "SCALAR", Name: n} }
	nn := func(t *introspectionTypeRef) *introspectionTypeRef { return &introspectionTypeRef{Kind: "NON_NULL", OfType: t} }
	list := func(t *introspectionTypeRef) *introspectionTypeRef { return &introspectionTypeRef{Kind: "LIST", OfType: t} }
	var out []*introspectionTypeRef
	for _, n := range []string{"Int", "String"} {
		l := leaf(n)
		out = append(out, l, nn(l), list(l), list(nn(l)), nn(list(l)), nn(list(nn(l))), list(list(nn(l))), nn(list(nn(list(l)))))
	}
	out = append(out, &introspectionTypeRef{Kind: "OBJECT", Name: "Int"})
	return out
}

func verifCopyRef(t *introspectionTypeRef) *introspectionTypeRef {
	if t == nil {
		return nil
	}
	return &introspectionTypeRef{Kind: t.Kind, Name: t.Name, OfType: verifCopyRef(t.OfType)}
}

// TestVerifBounded_C09_TypeRefs: all ordered pairs of 17 type references (up to two list levels, every non-null
// placement, two scalar names, one kind clash) x input/output: the full nested lattice, commutativity, arguments unchanged.
func TestVerifBounded_C09_TypeRefs(t *testing.T) {
	refs := verifRefs()
	evals, distinct, failures := 0, 0, 0
	first := ""
	fail := func(a, b *introspectionTypeRef, in bool, why string) {
		failures++
		if first == "" {
			first = verifJSON(map[string]interface{}{"a": a.String(), "b": b.String(), "isInput": in, "detail": why})
		}
	}
	for _, a := range refs {
		for _, b := range refs {
			for _, in := range []bool{true, false} {
				evals++
				if a != b {
					distinct++
				}
				ac, bc := verifCopyRef(a), verifCopyRef(b)
				got, err := mergeTypeRefs(a, b, in)
				if !reflect.DeepEqual(a, ac) || !reflect.DeepEqual(b, bc) {
					fail(a, b, in, "argument modified")
				}
				sa, _ := verifShapeOf(a)
				sb, _ := verifShapeOf(b)
				want, ok := verifMergeShapes(sa, sb, in)
				if (err == nil) != ok {
					fail(a, b, in, fmt.Sprintf("error=%v, property demands mergeable=%v", err, ok))
					continue
				}
				if err != nil {
					continue
				}
				gs, wf := verifShapeOf(got)
				if !wf || !reflect.DeepEqual(gs, want) {
					fail(a, b, in, fmt.Sprintf("merged to %s, property demands %+v", got, want))
				}
				rev, err2 := mergeTypeRefs(b, a, in)
				if err2 != nil || !reflect.DeepEqual(rev, got) {
					fail(a, b, in, "not commutative")
				}
			}
		}
	}
	if first != "" {
		fmt.Printf("VERIF-FAIL-INPUT: %s\n", first)
	}
	fmt.Printf("VERIF-SAMPLE: a=[Int!]! b=[Int] output -> [Int]\n")
	fmt.Printf("VERIF-BOUNDED: evaluations=%d distinct=%d failures=%d\n", evals, distinct, failures)
}

// ---- schema level: names(result) = union / intersection, members merged, commutative, sorted, closed
func verifSchemas(thorough bool) []*IntrospectionQueryResult {
	intT := &introspectionTypeRef{Kind: "SCALAR", Name: "Int"}
	nnInt := &introspectionTypeRef{Kind: "NON_NULL", OfType: intT}
	fieldOpts := []*introspectionTypeRef{nil, intT, nnInt}
	argOpts := []*introspectionTypeRef{nil, intT, nnInt} // the required-argument option is part of the quick tier as well
	_ = thorough
	var out []*IntrospectionQueryResult
	for _, f := range fieldOpts {
		for _, g := range fieldOpts {
			for _, arg := range argOpts {
				for _, extraType := range []bool{false, true} {
					var fields []introspectionField
					if f != nil {
						fl := introspectionField{Name: "f", Type: f, Args: []introspectionInputField{}}
						if arg != nil {
							fl.Args = append(fl.Args, introspectionInputField{Name: "x", Type: arg})
						}
						fields = append(fields, fl)
					}
					if g != nil {
						fields = append(fields, introspectionField{Name: "g", Type: g, Args: []introspectionInputField{}})
					}
					types := []introspectionType{{Name: "Query", Kind: "OBJECT", Fields: fields}, {Name: "Int", Kind: "SCALAR"}}
					if extraType {
						types = append(types, introspectionType{Name: "E", Kind: "ENUM", EnumValues: []introspectionEnumValue{{Name: "A"}}})
					}
					out = append(out, &IntrospectionQueryResult{Schema: introspectionSchema{Types: types}})
				}
			}
		}
	}
	return out
}

func verifFieldMap(s *IntrospectionQueryResult) (map[string]introspectionField, []string) {
	m := map[string]introspectionField{}
	var typeNames []string
	for _, t := range s.Schema.Types {
		typeNames = append(typeNames, t.Name)
		if t.Name == "Query" {
			for _, f := range t.Fields {
				m[f.Name] = f
			}
		}
	}
	return m, typeNames
}

// TestVerifBounded_C09_Schemas: all ordered pairs of small schemas x {union, intersection}
func TestVerifBounded_C09_Schemas(t *testing.T) {
	schemas := verifSchemas(os.Getenv("VERIF_TIER") == "thorough")
	evals, distinct, failures := 0, 0, 0
	first := ""
	fail := func(i, j int, mode MergeMode, why string) {
		failures++
		if first == "" {
			first = verifJSON(map[string]interface{}{"a": schemas[i].Schema.Types, "b": schemas[j].Schema.Types, "mode": mode, "detail": why})
		}
	}
	for i, a := range schemas {
		for j, b := range schemas {
			for _, mode := range []MergeMode{Union, Intersection} {
				evals++
				if i != j {
					distinct++
				}
				got, err := mergeSchemas(a, b, mode)
				rev, err2 := mergeSchemas(b, a, mode)
				if (err == nil) != (err2 == nil) {
					fail(i, j, mode, "merge succeeds in one argument order only")
					continue
				}
				fa, ta := verifFieldMap(a)
				fb, tb := verifFieldMap(b)
				// oracle: mergeable iff common fields/args have mergeable types and no one-sided required argument
				mergeable := true
				for name, x := range fa {
					y, both := fb[name]
					if !both {
						continue
					}
					sx, _ := verifShapeOf(x.Type)
					sy, _ := verifShapeOf(y.Type)
					if _, ok := verifMergeShapes(sx, sy, false); !ok {
						mergeable = false
					}
					ax, ay := map[string]*introspectionTypeRef{}, map[string]*introspectionTypeRef{}
					for _, p := range x.Args {
						ax[p.Name] = p.Type
					}
					for _, p := range y.Args {
						ay[p.Name] = p.Type
					}
					for n, tx := range ax {
						if ty, ok := ay[n]; ok {
							s1, _ := verifShapeOf(tx)
							s2, _ := verifShapeOf(ty)
							if _, ok := verifMergeShapes(s1, s2, true); !ok {
								mergeable = false
							}
						} else if tx.Kind == "NON_NULL" {
							mergeable = false // a required argument only one side knows
						}
					}
					for n, ty := range ay {
						if _, ok := ax[n]; !ok && ty.Kind == "NON_NULL" {
							mergeable = false
						}
					}
				}
				if (err == nil) != mergeable {
					fail(i, j, mode, fmt.Sprintf("error=%v, property demands mergeable=%v", err, mergeable))
					continue
				}
				if err != nil {
					continue
				}
				if !reflect.DeepEqual(got, rev) {
					fail(i, j, mode, "result depends on argument order")
				}
				fg, tg := verifFieldMap(got)
				wantTypes := map[string]bool{}
				for _, n := range ta {
					if mode == Union || verifContains(tb, n) {
						wantTypes[n] = true
					}
				}
				for _, n := range tb {
					if mode == Union {
						wantTypes[n] = true
					}
				}
				if !sort.StringsAreSorted(tg) || len(tg) != len(wantTypes) {
					fail(i, j, mode, fmt.Sprintf("type names %v, property demands %v (sorted, no duplicates)", tg, wantTypes))
				}
				for name := range fa {
					_, inB := fb[name]
					_, inG := fg[name]
					if inG != (inB || mode == Union) {
						fail(i, j, mode, "field "+name+" presence")
					}
				}
				for name := range fb {
					_, inA := fa[name]
					_, inG := fg[name]
					if inG != (inA || mode == Union) {
						fail(i, j, mode, "field "+name+" presence")
					}
				}
				for name, g := range fg {
					x, okA := fa[name]
					y, okB := fb[name]
					if okA && okB {
						sx, _ := verifShapeOf(x.Type)
						sy, _ := verifShapeOf(y.Type)
						want, _ := verifMergeShapes(sx, sy, false)
						gs, _ := verifShapeOf(g.Type)
						if !reflect.DeepEqual(gs, want) {
							fail(i, j, mode, "field "+name+" nullability")
						}
					}
				}
			}
		}
	}
	if first != "" {
		fmt.Printf("VERIF-FAIL-INPUT: %s\n", first)
	}
	fmt.Printf("VERIF-SAMPLE: Query{f(x: Int): Int!, g: Int} vs Query{f: Int}, intersection\n")
	fmt.Printf("VERIF-BOUNDED: evaluations=%d distinct=%d failures=%d\n", evals, distinct, failures)
}

func verifContains(l []string, s string) bool {
	for _, x := range l {
		if x == s {
			return true
		}
	}
	return false
}


// TestVerifBounded_C09_Versions: three versions of one service through the real processSchemaVersions: the service schema
// keeps a field iff every version has it (a field any version lacks - also a middle one - is gone), whatever the versions are
// called; a merge failure between any two versions (e.g. a required argument only one version knows) fails the whole fold.
func TestVerifBounded_C09_Versions(t *testing.T) {
	all := verifSchemas(true)
	// a spread of the schema family: every 5th schema (11 schemas, 1331 ordered triples)
	var schemas []*IntrospectionQueryResult
	for i := 0; i < len(all); i += 5 {
		schemas = append(schemas, all[i])
	}
	evals, distinct, failures := 0, 0, 0
	first := ""
	classes := map[string]bool{}
	fail := func(a, b, c int, why string) {
		failures++
		// classify: the one known way for the outcome to depend on version order (known_findings.txt) is a field that some
		// version lacks while two versions that have it are pairwise incompatible - the incompatibility is then reported only
		// if those two meet before the field has been dropped. Everything else is class "other".
		class := "other:" + strings.Fields(why)[0]
		if strings.HasPrefix(why, "outcome depends") {
			vs := []*IntrospectionQueryResult{schemas[a], schemas[b], schemas[c]}
			for _, name := range []string{"f", "g"} {
				var have []*IntrospectionQueryResult
				for _, v := range vs {
					if m, _ := verifFieldMap(v); func() bool { _, ok := m[name]; return ok }() {
						have = append(have, v)
					}
				}
				if len(have) == 2 {
					if _, err := mergeSchemas(have[0], have[1], Intersection); err != nil {
						class = "fold-order:dropped-field-hides-incompatible-versions"
					}
				}
			}
		}
		classes[class] = true
		if first == "" {
			first = verifJSON(map[string]interface{}{"v1": schemas[a].Schema.Types, "v2": schemas[b].Schema.Types, "v3": schemas[c].Schema.Types, "detail": why, "class": class})
		}
	}
	defer func() {
		for c := range classes {
			fmt.Printf("VERIF-FAIL-CLASS: %s\n", c)
		}
	}()
	for a := range schemas {
		for b := range schemas {
			for c := range schemas {
				evals++
				if a != b && b != c && a != c {
					distinct++
				}
				_, svc, byName, err := processSchemaVersions(serviceSchemas{"svc": {"v1": schemas[a], "v2": schemas[b], "v3": schemas[c]}})
				// oracle: the fold succeeds iff the left-to-right pairwise merges succeed; fields = those all three versions have
				ab, e1 := mergeSchemas(schemas[a], schemas[b], Intersection)
				var e2 error
				if e1 == nil {
					_, e2 = mergeSchemas(ab, schemas[c], Intersection)
				}
				wantErr := e1 != nil || e2 != nil
				if (err != nil) != wantErr {
					fail(a, b, c, fmt.Sprintf("fold error=%v, pairwise merges fail=%v", err, wantErr))
					continue
				}
				if err != nil {
					continue
				}
				if len(svc) != 1 || byName["svc"] != svc[0] {
					fail(a, b, c, "one service must yield one schema")
					continue
				}
				fa, _ := verifFieldMap(schemas[a])
				fb, _ := verifFieldMap(schemas[b])
				fc, _ := verifFieldMap(schemas[c])
				fg, _ := verifFieldMap(svc[0])
				for _, name := range []string{"f", "g"} {
					_, inA := fa[name]
					_, inB := fb[name]
					_, inC := fc[name]
					_, inG := fg[name]
					if inG != (inA && inB && inC) {
						fail(a, b, c, fmt.Sprintf("field %s: in versions %v/%v/%v, in the service schema %v", name, inA, inB, inC, inG))
					}
				}
				// renaming the versions (which reorders the fold) must not change which fields survive
				_, svc2, _, err2 := processSchemaVersions(serviceSchemas{"svc": {"z": schemas[a], "m": schemas[b], "a": schemas[c]}})
				if (err2 != nil) != (err != nil) {
					fail(a, b, c, "outcome depends on how the versions are named")
				} else if err2 == nil {
					fg2, _ := verifFieldMap(svc2[0])
					if len(fg2) != len(fg) {
						fail(a, b, c, "surviving fields depend on how the versions are named")
					}
				}
			}
		}
	}
	if first != "" {
		fmt.Printf("VERIF-FAIL-INPUT: %s\n", first)
	}
	fmt.Printf("VERIF-SAMPLE: versions {f,g} / {g} / {f,g}: only g survives\n")
	fmt.Printf("VERIF-BOUNDED: evaluations=%d distinct=%d failures=%d\n", evals, distinct, failures)
}
