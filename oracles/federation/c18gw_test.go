package federation

// Bounded stand-in for C18 / C06 through the federation gateway: the gateway re-encodes every sub-query - arguments included -
// into its protobuf form and the receiving service decodes it again. For a family of argument values (integers up to the
// float64-exact range, negative numbers, floats, booleans, strings with non-ASCII and control characters, nulls, enums, lists,
// nested lists, input objects, values from variables) the resolver behind the gateway must see exactly what it sees when
// the same query is run on the service directly. Labelled bounded.

import (
	"context"
	"encoding/json"
	"fmt"
	"reflect"
	"strings"
	"testing"

	"github.com/samsarahq/thunder/graphql"
	"github.com/samsarahq/thunder/graphql/schemabuilder"
)

type c18gwEnum int32

type c18gwInner struct {
	A int64
	B *string
	L []float64
}

type c18gwArgs struct {
	I  *int64
	F  *float64
	S  *string
	B  *bool
	E  *c18gwEnum
	L  *[]int64
	LL *[][]string
	O  *c18gwInner
	U  *uint8
}

func c18gwSchema(name string) *schemabuilder.Schema {
	sb := schemabuilder.NewSchemaWithName(name)
	sb.Enum(c18gwEnum(0), map[string]c18gwEnum{"one": 1, "two": 2})
	sb.Query().FieldFunc("echo", func(args c18gwArgs) string {
		b, _ := json.Marshal(args)
		return string(b)
	})
	sb.Mutation().FieldFunc("noop", func() bool { return true })
	return sb
}

func TestVerifBounded_C18_Gateway(t *testing.T) {
	ctx := context.Background()
	direct := c18gwSchema("direct").MustBuild()
	srv, err := NewServer(c18gwSchema("s1").MustBuild())
	if err != nil {
		t.Fatal(err)
	}
	execs := map[string]ExecutorClient{"s1": &DirectExecutorClient{Client: srv}}
	gateway, err := NewExecutor(ctx, execs, &SchemaSyncerConfig{SchemaSyncer: NewIntrospectionSchemaSyncer(ctx, execs, nil)})
	if err != nil {
		t.Fatal(err)
	}
	type tc struct{ query, vars string }
	var cases []tc
	for _, a := range []string{
		`i: 0`, `i: -1`, `i: 9007199254740991`, `i: -9007199254740991`, `i: 1234567890123`, `f: 0.1`, `f: -2.5e-10`, `f: 1e300`, `f: 3`, `s: ""`, `s: "zoë \n \" \u0001"`, `s: "null"`,
		`b: true`, `b: false`, `e: one`, `e: two`, `l: []`, `l: [1, -2, 3]`, `ll: [["a"], [], ["b", "c"]]`, `o: {a: 1, l: []}`, `o: {a: -7, b: "x", l: [0.5, 2]}`, 
		`u: 255`, `u: 0`, `i: 5, f: 2.5, s: "q", b: true, e: one, l: [1], ll: [[]], o: {a: 2, l: []}, u: 7`,
	} {
		cases = append(cases, tc{fmt.Sprintf(`{ echo(%s) }`, a), ""})
	}
	for _, v := range []struct{ decl, use, vars string }{
		{"$v: int64", "i: $v", `{"v": 9007199254740991}`}, {"$v: int64", "i: $v", `{"v": -3}`}, {"$v: float64", "f: $v", `{"v": 0.1}`}, {"$v: string", "s: $v", `{"v": "zoë \n \" \u0001"}`},
		{"$v: bool", "b: $v", `{"v": false}`}, {"$v: c18gwEnum", "e: $v", `{"v": "two"}`}, {"$v: [int64]", "l: $v", `{"v": [3, 2, 1]}`}, {"$v: [[string]]", "ll: $v", `{"v": [["x"], []]}`},
		{"$v: c18gwInner_InputObject", "o: $v", `{"v": {"a": 4, "b": "y", "l": [1.5]}}`}, {"$v: int64", "i: $v", `{"v": null}`}, {"$v: int64 = 12", "i: $v", `{}`}, {"$v: string = \"dflt\"", "s: $v", `{"v": null}`},
		{"$v: int64, $w: string", "i: $v, s: $w", `{"v": 1, "w": "two"}`},
	} {
		cases = append(cases, tc{fmt.Sprintf(`query(%s) { echo(%s) }`, v.decl, v.use), v.vars})
	}
	evals, failures, answered := 0, 0, 0
	fail := func(c tc, detail string) {
		failures++
		if failures <= 3 {
			b, _ := json.Marshal(map[string]interface{}{"query": c.query, "variables": c.vars, "detail": detail})
			fmt.Printf("VERIF-FAIL-INPUT: %s\n", b)
			t.Errorf("%s %s: %s", c.query, c.vars, detail)
		} else {
			t.Fail()
		}
	}
	for _, c := range cases {
		evals++
		vars := map[string]interface{}{}
		if c.vars != "" {
			if err := json.Unmarshal([]byte(c.vars), &vars); err != nil {
				t.Fatal(err)
			}
		}
		run := func(throughGateway bool) (interface{}, error) {
			q, err := graphql.Parse(c.query, vars)
			if err != nil {
				return nil, err
			}
			if throughGateway {
				res, _, err := gateway.Execute(ctx, q, nil)
				return res, err
			}
			if err := graphql.PrepareQuery(ctx, direct.Query, q.SelectionSet); err != nil {
				return nil, err
			}
			return graphql.NewExecutor(graphql.NewImmediateGoroutineScheduler()).Execute(ctx, direct.Query, nil, q)
		}
		want, werr := run(false)
		got, gerr := run(true)
		switch {
		case werr != nil && gerr != nil:
			t.Logf("both refuse %s %s: %v", c.query, c.vars, werr)
		case werr != nil:
			fail(c, fmt.Sprintf("the service refuses the query (%v), the gateway answers %v", werr, got))
		case gerr != nil:
			fail(c, "the service answers, the gateway fails: "+strings.SplitN(gerr.Error(), "\n", 2)[0])
		default:
			answered++
			wb, _ := json.Marshal(want)
			gb, _ := json.Marshal(got)
			var w, g interface{}
			json.Unmarshal(wb, &w)
			json.Unmarshal(gb, &g)
			if !reflect.DeepEqual(w, g) {
				fail(c, fmt.Sprintf("behind the gateway the resolver saw %s, directly %s", gb, wb))
			}
		}
	}
	if answered < len(cases) {
		t.Errorf("only %d of %d queries of the family are answered by both sides: the harness would compare nothing", answered, len(cases))
		fmt.Printf("VERIF-FAIL-INPUT: {\"detail\": \"only %d of %d queries answered by both sides\"}\n", answered, len(cases))
		failures++
	}
	fmt.Printf("VERIF-SAMPLE: { echo(o: {a: -7, b: \"x\", l: [0.5, 2]}) } through the gateway vs. directly\n")
	fmt.Printf("VERIF-BOUNDED: evaluations=%d distinct=%d failures=%d\n", evals, evals, failures)
}
