package federation

// Bounded stand-in for the "through the federation gateway" clause of C19: queries with @skip / @include on fields, inline
// fragments and repeated same-alias selections are sent through the real gateway (two services, setup of c06e2e_test.go);
// the gateway must return what the combined server returns for the same query after textually deleting every excluded
// node and dropping the directives from the rest. Labelled bounded in the evidence.

import (
	"context"
	"encoding/json"
	"fmt"
	"reflect"
	"strings"
	"testing"

	"github.com/samsarahq/thunder/graphql"
	"github.com/samsarahq/thunder/graphql/schemabuilder"
)

type c19Node struct {
	text     string // field text incl. alias and arguments, or "... on T" for a fragment; "" for the root
	dir      string // "", "skip-true", "skip-false", "include-true", "include-false", "both-allow", "both-deny"
	children []*c19Node
}

func (n *c19Node) excluded() bool {
	switch n.dir {
	case "skip-true", "include-false", "both-deny":
		return true
	}
	return false
}

func (n *c19Node) directiveText() string {
	switch n.dir {
	case "skip-true":
		return " @skip(if: true)"
	case "skip-false":
		return " @skip(if: false)"
	case "include-true":
		return " @include(if: true)"
	case "include-false":
		return " @include(if: false)"
	case "both-allow":
		return " @skip(if: false) @include(if: true)"
	case "both-deny":
		return " @skip(if: false) @include(if: false)"
	}
	return ""
}

// render with directives (full) or pruned (excluded nodes deleted, directives dropped)
func (n *c19Node) render(pruned bool) string {
	if pruned && n.excluded() {
		return ""
	}
	out := n.text
	if !pruned {
		out += n.directiveText()
	}
	if len(n.children) > 0 {
		body := ""
		for _, c := range n.children {
			body += c.render(pruned) + " "
		}
		if strings.TrimSpace(body) == "" {
			// every child was pruned: the textual deletion leaves an empty selection, which is not a query; such cases are
			// not part of the family (see c19Valid)
			body = "__EMPTY__"
		}
		out += " { " + body + "}"
	}
	return out
}

func c19Valid(n *c19Node) bool {
	return !strings.Contains(n.render(true), "__EMPTY__")
}

func TestVerifBounded_C19_Gateway(t *testing.T) {
	ctx := context.Background()
	monoCount := &c06Counter{}
	mono := schemabuilder.NewSchemaWithName("mono")
	c06Service2(mono, c06Service1(mono, monoCount))
	monoSchema := mono.MustBuild()
	gwCount := &c06Counter{}
	s1 := schemabuilder.NewSchemaWithName("s1")
	c06Service1(s1, gwCount)
	s2 := schemabuilder.NewSchemaWithName("s2")
	u2 := s2.Object("C06User", C06User{}, schemabuilder.FetchObjectFromKeys(func(args struct{ Keys []*C06User }) []*C06User { return args.Keys }))
	u2.Key("id")
	c06Service2(s2, u2)
	execs := map[string]ExecutorClient{}
	for name, sb := range map[string]*schemabuilder.Schema{"s1": s1, "s2": s2} {
		srv, err := NewServer(sb.MustBuild())
		if err != nil {
			t.Fatal(err)
		}
		execs[name] = &DirectExecutorClient{Client: srv}
	}
	gateway, err := NewExecutor(ctx, execs, &SchemaSyncerConfig{SchemaSyncer: NewIntrospectionSchemaSyncer(ctx, execs, nil)})
	if err != nil {
		t.Fatal(err)
	}
	dirs := []string{"", "skip-true", "skip-false", "include-true", "include-false", "both-allow", "both-deny"}
	f := func(text, dir string, children ...*c19Node) *c19Node { return &c19Node{text: text, dir: dir, children: children} }
	var trees []*c19Node
	for _, d1 := range dirs {
		for _, d2 := range dirs {
			// directives on two sibling fields (one on each service), on an object field and on a field below it
			trees = append(trees, f("", "", f("users", "", f("id", ""), f("name", d1), f("badge", d2))))
			trees = append(trees, f("", "", f("users", "", f("id", ""), f("device", d1, f("id", ""), f("label", d2)))))
			// the same alias twice, each occurrence with its own directive (same-alias selections are merged)
			trees = append(trees, f("", "", f("users", d1, f("id", "")), f("users", d2, f("name", ""))))
			trees = append(trees, f("", "", f("users", "", f("id", ""), f("device", d1, f("id", "")), f("device", d2, f("label", "")))))
			// inline fragments with directives, and fields inside them
			trees = append(trees, f("", "", f("users", "", f("id", ""), f("... on C06User", d1, f("name", ""), f("badge", d2)))))
			trees = append(trees, f("", "", f("users", "", f("id", ""), f("friends", d1, f("id", ""), f("badge", d2)))))
			trees = append(trees, f("", "", f("users", "", f("id", ""), f("__typename", d1), f("k: __typename", d2))))
			// under a union parent: fragments and the union-level __typename with directives
			trees = append(trees, f("", "", f("things", "", f("k: __typename", ""), f("... on C06User", d1, f("id", "")), f("... on C06Device", d2, f("label", "")))))
			trees = append(trees, f("", "", f("things", "", f("__typename", d1), f("... on C06Device", "", f("id", ""), f("label", d2)))))
		}
	}
	evals, distinct, failures := 0, 0, 0
	classes := map[string]bool{}
	fail := func(query, pruned, detail, class string) {
		failures++
		classes[class] = true
		if failures <= 3 {
			b, _ := json.Marshal(map[string]interface{}{"query": query, "pruned": pruned, "detail": detail, "class": class})
			fmt.Printf("VERIF-FAIL-INPUT: %s\n", b)
			t.Errorf("%s: %s", query, detail)
		} else {
			t.Fail()
		}
	}
	for _, tree := range trees {
		if !c19Valid(tree) {
			continue
		}
		distinct++
		evals++
		full := strings.TrimSpace(tree.render(false))
		pruned := strings.TrimSpace(tree.render(true))
		class := "other"
		if strings.Count(full, "users") > 1 || strings.Count(full, "device") > 1 {
			class = "same-alias"
		}
		q, err := graphql.Parse(pruned, map[string]interface{}{})
		if err != nil {
			t.Fatalf("%s: %v", pruned, err)
		}
		if err := graphql.PrepareQuery(ctx, monoSchema.Query, q.SelectionSet); err != nil {
			t.Fatalf("%s: %v", pruned, err)
		}
		want, err := graphql.NewExecutor(graphql.NewImmediateGoroutineScheduler()).Execute(ctx, monoSchema.Query, nil, q)
		if err != nil {
			t.Fatalf("%s: %v", pruned, err)
		}
		q2, err := graphql.Parse(full, map[string]interface{}{})
		if err != nil {
			fail(full, pruned, "rejected by the parser: "+err.Error(), class)
			continue
		}
		got, _, err := gateway.Execute(ctx, q2, nil)
		if err != nil {
			fail(full, pruned, "the gateway fails: "+strings.SplitN(err.Error(), "\n", 2)[0], class)
			continue
		}
		if !reflect.DeepEqual(c06Norm(got), c06Norm(want)) {
			g, _ := json.Marshal(c06Norm(got))
			w, _ := json.Marshal(c06Norm(want))
			if reflect.DeepEqual(c06DropExtraTypename(c06Norm(got), c06Norm(want)), c06Norm(want)) {
				class = "gateway-union-extra-typename"
			}
			fail(full, pruned, fmt.Sprintf("gateway %s, pruned query on the combined server %s", g, w), class)
		}
	}
	for c := range classes {
		fmt.Printf("VERIF-FAIL-CLASS: %s\n", c)
	}
	fmt.Printf("VERIF-SAMPLE: { users @skip(if: true) { id } users { name } }\n")
	fmt.Printf("VERIF-BOUNDED: evaluations=%d distinct=%d failures=%d\n", evals, distinct, failures)
}
