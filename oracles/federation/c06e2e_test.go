package federation

// Bounded stand-in for the plan / execute / stitch clause of C06 that no contract reaches: the same objects and fields are
// served (a) by one combined server and (b) by two services behind the real gateway (planner, executor, stitching,
// introspection-based schema sync); for every query and mutation of the family below the gateway must return the JSON
// the combined server returns, mutations must run exactly once and on the owning service as a mutation, and every
// sub-query to another service must be a plain query. Labelled bounded in the evidence.

import (
	"strings"
	"context"
	"encoding/json"
	"fmt"
	"reflect"
	"sync"
	"testing"

	"github.com/samsarahq/thunder/graphql"
	"github.com/samsarahq/thunder/graphql/schemabuilder"
)

type C06User struct {
	Id   int64
	Name string
}

type C06Device struct {
	Id    int64
	Label string
}

var c06UserData = []*C06User{{1, "ann"}, {2, "bob"}, {3, "cy"}}

func c06Device(u *C06User) *C06Device {
	if u.Id == 2 {
		return nil
	}
	return &C06Device{Id: u.Id * 100, Label: "dev-" + u.Name}
}

func c06Friends(u *C06User) []*C06User {
	var out []*C06User
	for _, o := range c06UserData {
		if o.Id != u.Id {
			out = append(out, o)
		}
	}
	return out
}

type c06Counter struct {
	mu      sync.Mutex
	created int
}

// registers the fields owned by "service 1" on sb
func c06Service1(sb *schemabuilder.Schema, c *c06Counter) *schemabuilder.Object {
	user := sb.Object("C06User", C06User{}, schemabuilder.FetchObjectFromKeys(func(args struct{ Keys []*C06User }) []*C06User { return args.Keys }))
	user.Key("id")
	sb.Query().FieldFunc("users", func() []*C06User { return c06UserData })
	sb.Query().FieldFunc("nobody", func() *C06User { return nil })
	sb.Query().FieldFunc("user", func(args struct{ Id int64 }) *C06User {
		for _, u := range c06UserData {
			if u.Id == args.Id {
				return u
			}
		}
		return nil
	})
	sb.Mutation().FieldFunc("newUser", func(args struct{ Name string }) *C06User {
		c.mu.Lock()
		c.created++
		c.mu.Unlock()
		return &C06User{Id: 99, Name: args.Name}
	})
	return user
}

// registers the fields owned by "service 2" on sb (user is the object registered on that schema)
func c06Service2(sb *schemabuilder.Schema, user *schemabuilder.Object) {
	dev := sb.Object("C06Device", C06Device{})
	_ = dev
	user.FieldFunc("badge", func(u *C06User) string { return "badge-" + u.Name })
	user.FieldFunc("device", func(u *C06User) *C06Device { return c06Device(u) })
	user.FieldFunc("friends", func(u *C06User) []*C06User { return c06Friends(u) })
	sb.Query().FieldFunc("version", func() string { return "v2" })
	sb.Query().FieldFunc("things", func() []*C06Thing {
		return []*C06Thing{{C06User: c06UserData[0]}, {C06Device: &C06Device{Id: 7, Label: "seven"}}, {C06User: c06UserData[1]}}
	})
}

type C06Thing struct {
	schemabuilder.Union
	*C06User
	*C06Device
}

type c06Recorder struct {
	ExecutorClient
	mu    sync.Mutex
	kinds []string
}

func (c *c06Recorder) Execute(ctx context.Context, req *QueryRequest) (*QueryResponse, error) {
	intro := false
	for _, s := range req.Query.SelectionSet.Selections {
		if s.Name == "__schema" {
			intro = true
		}
	}
	if !intro {
		c.mu.Lock()
		c.kinds = append(c.kinds, req.Query.Kind)
		c.mu.Unlock()
	}
	return c.ExecutorClient.Execute(ctx, req)
}

func c06Strip(v interface{}) interface{} {
	switch x := v.(type) {
	case map[string]interface{}:
		out := map[string]interface{}{}
		for k, e := range x {
			if k != "__key" && k != "_federation" {
				out[k] = c06Strip(e)
			}
		}
		return out
	case []interface{}:
		out := make([]interface{}, len(x))
		for i, e := range x {
			out[i] = c06Strip(e)
		}
		return out
	}
	return v
}

// c06DropExtraTypename removes from got every "__typename" key that want does not have at the same place. The gateway is
// known to return the __typename it selects for its own dispatch on every union value (known finding k2).
func c06DropExtraTypename(got, want interface{}) interface{} {
	switch g := got.(type) {
	case map[string]interface{}:
		w, _ := want.(map[string]interface{})
		out := map[string]interface{}{}
		for k, e := range g {
			if k == "__typename" {
				if _, ok := w[k]; !ok {
					continue
				}
			}
			var we interface{}
			if w != nil {
				we = w[k]
			}
			out[k] = c06DropExtraTypename(e, we)
		}
		return out
	case []interface{}:
		w, _ := want.([]interface{})
		out := make([]interface{}, len(g))
		for i, e := range g {
			var we interface{}
			if i < len(w) {
				we = w[i]
			}
			out[i] = c06DropExtraTypename(e, we)
		}
		return out
	}
	return got
}

func c06Norm(v interface{}) interface{} {
	b, err := json.Marshal(v)
	if err != nil {
		return fmt.Sprintf("unmarshalable: %v", err)
	}
	var out interface{}
	json.Unmarshal(b, &out)
	return c06Strip(out)
}

func TestVerifBounded_C06_Gateway(t *testing.T) {
	ctx := context.Background()
	// (a) one combined server
	monoCount := &c06Counter{}
	mono := schemabuilder.NewSchemaWithName("mono")
	c06Service2(mono, c06Service1(mono, monoCount))
	monoSchema := mono.MustBuild()
	// (b) two services behind the gateway
	gwCount := &c06Counter{}
	s1 := schemabuilder.NewSchemaWithName("s1")
	c06Service1(s1, gwCount)
	s2 := schemabuilder.NewSchemaWithName("s2")
	u2 := s2.Object("C06User", C06User{}, schemabuilder.FetchObjectFromKeys(func(args struct{ Keys []*C06User }) []*C06User { return args.Keys }))
	u2.Key("id")
	c06Service2(s2, u2)
	s2.Mutation().FieldFunc("noop2", func() bool { return true })
	execs := map[string]ExecutorClient{}
	recs := map[string]*c06Recorder{}
	for name, sb := range map[string]*schemabuilder.Schema{"s1": s1, "s2": s2} {
		srv, err := NewServer(sb.MustBuild())
		if err != nil {
			t.Fatal(err)
		}
		recs[name] = &c06Recorder{ExecutorClient: &DirectExecutorClient{Client: srv}}
		execs[name] = recs[name]
	}
	gateway, err := NewExecutor(ctx, execs, &SchemaSyncerConfig{SchemaSyncer: NewIntrospectionSchemaSyncer(ctx, execs, nil)})
	if err != nil {
		t.Fatal(err)
	}
	queries := []string{
		`{ users { id name } }`,
		`{ users { id badge } }`,
		`{ users { name device { id label } } version }`,
		`{ users { id friends { id name badge } } }`,
		`{ users { friends { friends { id device { label } } } } }`,
		`{ user(id: 2) { id name badge device { id } } nobody { id badge } }`,
		`{ a: user(id: 1) { n: name b: badge } b: user(id: 3) { badge name } }`,
		`{ users { ...F } } fragment F on C06User { id badge device { label } }`,
		`{ users { id badge @skip(if: true) name @include(if: true) } }`,
		`{ users { __typename id device { __typename id } } }`,
		`{ things { __typename ... on C06User { id name } ... on C06Device { id label } } }`,
		`{ things { ... on C06Device { label } } }`,
		// one member fragment with a field of the other service below it, while the data holds other members too
		`{ things { ... on C06User { id name } } }`,
		`{ things { __typename ... on C06User { name badge } } }`,
		// fragments whose type condition is the union itself (named and inline, nested)
		`{ things { ...T } } fragment T on C06Thing { __typename ... on C06User { id name } ... on C06Device { label } }`,
		`{ things { ... on C06Thing { __typename ... on C06Device { id label } ... on C06User { name } } } }`,
		`mutation { newUser(name: "zed") { id name } }`,
		`mutation { newUser(name: "zed") { id name badge } }`,
		`mutation { newUser(name: "yo") { name device { label } friends { id badge } } }`,
	}
	evals, distinct, failures := 0, 0, 0
	classes := map[string]bool{}
	defer func() {
		for c := range classes {
			fmt.Printf("VERIF-FAIL-CLASS: %s\n", c)
		}
	}()
	fail := func(query, detail string) {
		failures++
		if !strings.HasPrefix(detail, "gateway {") {
			classes["other"] = true
		}
		if failures <= 3 {
			b, _ := json.Marshal(map[string]interface{}{"query": query, "detail": detail})
			fmt.Printf("VERIF-FAIL-INPUT: %s\n", b)
			t.Errorf("%s: %s", query, detail)
		} else {
			t.Fail()
		}
	}
	for _, query := range queries {
		distinct++
		evals++
		q, err := graphql.Parse(query, map[string]interface{}{})
		if err != nil {
			t.Fatal(err)
		}
		root := monoSchema.Query
		if q.Kind == "mutation" {
			root = monoSchema.Mutation
		}
		if err := graphql.PrepareQuery(ctx, root, q.SelectionSet); err != nil {
			fail(query, "the combined server rejects the query: "+err.Error())
			continue
		}
		want, err := graphql.NewExecutor(graphql.NewImmediateGoroutineScheduler()).Execute(ctx, root, nil, q)
		if err != nil {
			fail(query, "the combined server fails: "+err.Error())
			continue
		}
		recs["s1"].kinds, recs["s2"].kinds = nil, nil
		before := gwCount.created
		q2, _ := graphql.Parse(query, map[string]interface{}{})
		got, _, err := gateway.Execute(ctx, q2, nil)
		if err != nil {
			fail(query, "the gateway fails where the combined server answers: "+err.Error())
			continue
		}
		if !reflect.DeepEqual(c06Norm(got), c06Norm(want)) {
			g, _ := json.Marshal(c06Norm(got))
			w, _ := json.Marshal(c06Norm(want))
			class := "other"
			if reflect.DeepEqual(c06DropExtraTypename(c06Norm(got), c06Norm(want)), c06Norm(want)) {
				class = "gateway-union-extra-typename"
			}
			classes[class] = true
			fail(query, fmt.Sprintf("gateway %s, combined server %s", g, w))
		}
		if q.Kind == "mutation" {
			if gwCount.created != before+1 {
				fail(query, fmt.Sprintf("the mutation ran %d times behind the gateway", gwCount.created-before))
			}
			for _, k := range recs["s2"].kinds {
				if k != "query" {
					fail(query, "a sub-query to the service that does not own the mutation was sent as "+k)
				}
			}
			if len(recs["s1"].kinds) == 0 || recs["s1"].kinds[0] != "mutation" {
				fail(query, fmt.Sprintf("the owning service received %v", recs["s1"].kinds))
			}
		} else {
			for _, name := range []string{"s1", "s2"} {
				for _, k := range recs[name].kinds {
					if k != "query" {
						fail(query, "a query was forwarded to "+name+" as "+k)
					}
				}
			}
		}
	}
	fmt.Printf("VERIF-SAMPLE: mutation { newUser(name: \"yo\") { name device { label } friends { id badge } } }\n")
	fmt.Printf("VERIF-BOUNDED: evaluations=%d distinct=%d failures=%d\n", evals, distinct, failures)
}
