package federation

// Bounded stand-in for the multi-hop part of C06 ("objects reached through a service hop are matched back to the right
// parent", "regardless of how fields are distributed over services"): the same objects and fields are served by one combined
// server and by THREE services behind the real gateway, such that objects handed to one service contain objects handed to
// another (user -> device -> owner -> ...), with nulls and lists on the way. For every query of the family the gateway must
// return the JSON the combined server returns, and nothing of the gateway's bookkeeping. Labelled bounded.

import (
	"context"
	"encoding/json"
	"fmt"
	"reflect"
	"strings"
	"testing"

	"github.com/samsarahq/thunder/graphql"
	"github.com/samsarahq/thunder/graphql/schemabuilder"
)

type C06mUser struct {
	Id   int64
	Name string
}

type C06mDevice struct {
	Id    int64
	Label string
}

var c06mUsers = []*C06mUser{{1, "ann"}, {2, "bob"}, {3, "cy"}, {4, "di"}}

func c06mDeviceOf(u *C06mUser) *C06mDevice {
	if u.Id == 2 {
		return nil
	}
	return &C06mDevice{Id: u.Id * 100, Label: "dev-" + u.Name}
}

func c06mOwner(d *C06mDevice) *C06mUser {
	for _, u := range c06mUsers {
		if u.Id*100 == d.Id {
			return u
		}
	}
	return nil
}

type c06mObjs struct{ user, dev *schemabuilder.Object }

func c06mObjects(sb *schemabuilder.Schema) c06mObjs {
	user := sb.Object("C06mUser", C06mUser{}, schemabuilder.FetchObjectFromKeys(func(args struct{ Keys []*C06mUser }) []*C06mUser { return args.Keys }))
	user.Key("id")
	dev := sb.Object("C06mDevice", C06mDevice{}, schemabuilder.FetchObjectFromKeys(func(args struct{ Keys []*C06mDevice }) []*C06mDevice { return args.Keys }))
	dev.Key("id")
	return c06mObjs{user, dev}
}

// service 1: the users, their friends
func c06mService1(sb *schemabuilder.Schema, o c06mObjs) {
	sb.Query().FieldFunc("users", func() []*C06mUser { return c06mUsers })
	sb.Query().FieldFunc("user", func(args struct{ Id int64 }) *C06mUser {
		for _, u := range c06mUsers {
			if u.Id == args.Id {
				return u
			}
		}
		return nil
	})
	o.user.FieldFunc("friends", func(u *C06mUser) []*C06mUser {
		var out []*C06mUser
		for _, f := range c06mUsers {
			if f.Id != u.Id && (f.Id+u.Id)%2 == 1 {
				out = append(out, f)
			}
		}
		return out
	})
}

// service 2: a user's device and badge, all devices
func c06mService2(sb *schemabuilder.Schema, o c06mObjs) {
	o.user.FieldFunc("device", func(u *C06mUser) *C06mDevice { return c06mDeviceOf(u) })
	o.user.FieldFunc("badge", func(u *C06mUser) string { return "badge-" + u.Name })
	sb.Query().FieldFunc("devices", func() []*C06mDevice {
		var out []*C06mDevice
		for _, u := range c06mUsers {
			if d := c06mDeviceOf(u); d != nil {
				out = append(out, d)
			}
		}
		return out
	})
}

// service 3: a device's temperature and owner, a user's secret
func c06mService3(sb *schemabuilder.Schema, o c06mObjs) {
	o.dev.FieldFunc("temp", func(d *C06mDevice) int64 { return d.Id + 1 })
	o.dev.FieldFunc("owner", func(d *C06mDevice) *C06mUser { return c06mOwner(d) })
	o.dev.FieldFunc("sharedWith", func(d *C06mDevice) []*C06mUser {
		var out []*C06mUser
		for _, u := range c06mUsers {
			if u.Id*100 < d.Id {
				out = append(out, u)
			}
		}
		return out
	})
	o.user.FieldFunc("secret", func(u *C06mUser) string { return "secret-" + u.Name })
	sb.Query().FieldFunc("spare", func() *C06mDevice { return &C06mDevice{Id: 300, Label: "dev-cy"} })
}

func c06mHasKey(v interface{}, key string) bool {
	switch x := v.(type) {
	case map[string]interface{}:
		for k, e := range x {
			if k == key || c06mHasKey(e, key) {
				return true
			}
		}
	case []interface{}:
		for _, e := range x {
			if c06mHasKey(e, key) {
				return true
			}
		}
	}
	return false
}

func TestVerifBounded_C06_MultiHop(t *testing.T) {
	ctx := context.Background()
	mono := schemabuilder.NewSchemaWithName("mono")
	mo := c06mObjects(mono)
	c06mService1(mono, mo)
	c06mService2(mono, mo)
	c06mService3(mono, mo)
	monoSchema := mono.MustBuild()
	execs := map[string]ExecutorClient{}
	for name, reg := range map[string]func(*schemabuilder.Schema, c06mObjs){"s1": c06mService1, "s2": c06mService2, "s3": c06mService3} {
		sb := schemabuilder.NewSchemaWithName(name)
		reg(sb, c06mObjects(sb))
		srv, err := NewServer(sb.MustBuild())
		if err != nil {
			t.Fatal(err)
		}
		execs[name] = &DirectExecutorClient{Client: srv}
	}
	gateway, err := NewExecutor(ctx, execs, &SchemaSyncerConfig{SchemaSyncer: NewIntrospectionSchemaSyncer(ctx, execs, nil)})
	if err != nil {
		t.Fatal(err)
	}
	queries := []string{
		`{ users { id name } }`,
		`{ users { name badge secret } }`,
		`{ users { device { label temp } } }`,
		`{ users { secret device { temp } } }`,
		`{ users { id device { id temp owner { name badge secret } } } }`,
		`{ users { device { owner { device { temp owner { name } } } } } }`,
		`{ users { friends { name device { temp sharedWith { badge } } } } }`,
		`{ users { friends { friends { secret device { label } } } } }`,
		`{ devices { label temp owner { id friends { badge } } } }`,
		`{ devices { sharedWith { secret device { temp } } } }`,
		`{ spare { label temp owner { name secret device { temp } } } }`,
		`{ user(id: 2) { name device { temp } friends { device { temp owner { secret } } } } }`,
		`{ a: user(id: 1) { d: device { t: temp o: owner { s: secret } } } b: user(id: 3) { device { temp } } }`,
		`{ users { ...U } } fragment U on C06mUser { badge device { ...D } } fragment D on C06mDevice { temp owner { secret } }`,
		`{ users { device { temp } device { label owner { name } } } }`,
		`{ users { id @skip(if: true) device @include(if: true) { temp @skip(if: false) label @skip(if: true) } } }`,
		`{ users { __typename device { __typename temp owner { __typename secret } } } }`,
	}
	evals, distinct, failures := 0, 0, 0
	fail := func(query, detail string) {
		failures++
		if failures <= 3 {
			b, _ := json.Marshal(map[string]interface{}{"query": query, "detail": detail})
			fmt.Printf("VERIF-FAIL-INPUT: %s\n", b)
			t.Errorf("%s: %s", query, detail)
		} else {
			t.Fail()
		}
	}
	for _, query := range queries {
		distinct++
		evals++
		q, err := graphql.Parse(query, map[string]interface{}{})
		if err != nil {
			t.Fatal(err)
		}
		if err := graphql.PrepareQuery(ctx, monoSchema.Query, q.SelectionSet); err != nil {
			fail(query, "the combined server rejects the query: "+err.Error())
			continue
		}
		want, err := graphql.NewExecutor(graphql.NewImmediateGoroutineScheduler()).Execute(ctx, monoSchema.Query, nil, q)
		if err != nil {
			fail(query, "the combined server fails: "+err.Error())
			continue
		}
		q2, _ := graphql.Parse(query, map[string]interface{}{})
		got, _, err := gateway.Execute(ctx, q2, nil)
		if err != nil {
			fail(query, "the gateway fails where the combined server answers: "+strings.SplitN(err.Error(), "\n", 2)[0])
			continue
		}
		var gotJ, wantJ interface{}
		gb, _ := json.Marshal(got)
		wb, _ := json.Marshal(want)
		json.Unmarshal(gb, &gotJ)
		json.Unmarshal(wb, &wantJ)
		if c06mHasKey(gotJ, "_federation") {
			fail(query, "the gateway's bookkeeping key _federation reaches the client: "+string(gb))
			continue
		}
		if !reflect.DeepEqual(c06Strip(gotJ), c06Strip(wantJ)) {
			fail(query, fmt.Sprintf("gateway %s, combined server %s", gb, wb))
		}
	}
	fmt.Printf("VERIF-SAMPLE: { users { id device { id temp owner { name badge secret } } } } over three services\n")
	fmt.Printf("VERIF-BOUNDED: evaluations=%d distinct=%d failures=%d\n", evals, distinct, failures)
}
