package federation

import (
	"context"
	"sync"
	"testing"
)

// Replay for lockset obligations of package federation: the background schema refresh (setPlanner)
// runs concurrently with request execution (runOnService / getPlanner). Run with -race.
func TestVerifRace_federation(t *testing.T) {
	e := &Executor{
		Executors: map[string]ExecutorClient{},
		syncer:    &Syncer{plannerMu: &sync.RWMutex{}},
	}
	var wg sync.WaitGroup
	wg.Add(2)
	go func() {
		defer wg.Done()
		for i := 0; i < 300; i++ {
			e.setPlanner(nil, nil) // what Executor.poll does on every schema change
		}
	}()
	go func() {
		defer wg.Done()
		for i := 0; i < 300; i++ {
			e.runOnService(context.Background(), false, "no-such-service", "T", nil, "", nil, nil, nil)
			_ = e.getPlanner()
		}
	}()
	wg.Wait()
}
