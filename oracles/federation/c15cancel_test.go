package federation

// Bounded stand-in for the cancellation clause of C15 on federated sub-requests (goroutines and contexts are outside the
// contracts): (a) Server.Execute - the entry point of every federated sub-request - is called with a context cancelled
// before the call, while the resolver is executing, or never; (b) the real gateway runs a query whose two root fields live
// on two services, one failing at once and the other one reached only after the failure has cancelled the shared context
// (or blocking on its context). Every call must return promptly, an uncancelled one with the query's result, and once all
// calls are over the number of goroutines is back to where it started. Labelled bounded.

import (
	"context"
	"encoding/json"
	"errors"
	"fmt"
	"runtime"
	"strings"
	"testing"
	"time"

	"github.com/samsarahq/thunder/graphql"
	"github.com/samsarahq/thunder/graphql/schemabuilder"
)

type c15DelayClient struct {
	ExecutorClient
	delay time.Duration
}

func (c *c15DelayClient) Execute(ctx context.Context, req *QueryRequest) (*QueryResponse, error) {
	for _, s := range req.Query.SelectionSet.Selections {
		if s.Name == "__schema" {
			return c.ExecutorClient.Execute(ctx, req)
		}
	}
	time.Sleep(c.delay)
	return c.ExecutorClient.Execute(ctx, req)
}

func TestVerifBounded_C15_FederationCancel(t *testing.T) {
	entered := make(chan struct{}, 64)
	s1 := schemabuilder.NewSchemaWithName("s1")
	s1.Query().FieldFunc("quick", func() string { return "ok" })
	s1.Query().FieldFunc("slow", func(ctx context.Context) (string, error) {
		entered <- struct{}{}
		select {
		case <-ctx.Done():
			return "", ctx.Err()
		case <-time.After(30 * time.Millisecond):
			return "late", nil
		}
	})
	s1.Query().FieldFunc("blocks", func(ctx context.Context) (string, error) {
		select {
		case <-ctx.Done():
			return "", ctx.Err()
		case <-time.After(20 * time.Second):
			return "never", nil
		}
	})
	s2 := schemabuilder.NewSchemaWithName("s2")
	s2.Query().FieldFunc("boom", func() (string, error) { return "", errors.New("boom failed") })
	s2.Query().FieldFunc("fine", func() string { return "fine" })
	srv1, err := NewServer(s1.MustBuild())
	if err != nil {
		t.Fatal(err)
	}
	srv2, err := NewServer(s2.MustBuild())
	if err != nil {
		t.Fatal(err)
	}

	evals, failures := 0, 0
	fail := func(what, detail string) {
		failures++
		if failures <= 3 {
			b, _ := json.Marshal(map[string]interface{}{"case": what, "detail": detail})
			fmt.Printf("VERIF-FAIL-INPUT: %s\n", b)
			t.Errorf("%s: %s", what, detail)
		} else {
			t.Fail()
		}
	}
	execs := map[string]ExecutorClient{
		"s1": &c15DelayClient{ExecutorClient: &DirectExecutorClient{Client: srv1}, delay: 15 * time.Millisecond},
		"s2": &DirectExecutorClient{Client: srv2},
	}
	bg := context.Background()
	gateway, err := NewExecutor(bg, execs, &SchemaSyncerConfig{SchemaSyncer: NewIntrospectionSchemaSyncer(bg, execs, nil)})
	if err != nil {
		t.Fatal(err)
	}
	time.Sleep(20 * time.Millisecond)
	before := runtime.NumGoroutine()

	// (a) one sub-request on one service
	direct := &DirectExecutorClient{Client: srv1}
	for round := 0; round < 5; round++ {
		for _, field := range []string{"quick", "slow"} {
			for _, when := range []string{"before", "during", "never"} {
				if failures >= 3 {
					continue
				}
				evals++
				what := fmt.Sprintf("sub-request { %s } with its context cancelled %s the run", field, when)
				q, err := graphql.Parse("{ "+field+" }", map[string]interface{}{})
				if err != nil {
					t.Fatal(err)
				}
				ctx, cancel := context.WithCancel(bg)
				if when == "before" {
					cancel()
				}
				type result struct {
					resp *QueryResponse
					err  error
				}
				done := make(chan result, 1)
				go func() {
					resp, err := direct.Execute(ctx, &QueryRequest{Query: q})
					done <- result{resp, err}
				}()
				if when == "during" {
					if field == "slow" {
						select {
						case <-entered:
						case <-time.After(2 * time.Second):
						}
					}
					cancel()
				}
				select {
				case r := <-done:
					if when == "never" {
						want := map[string]string{"quick": "ok", "slow": "late"}[field]
						if r.err != nil {
							fail(what, "fails although nothing was cancelled: "+r.err.Error())
						} else if got := fmt.Sprintf("%s", r.resp.Result); !strings.Contains(got, want) {
							fail(what, fmt.Sprintf("result %s does not contain %q", got, want))
						}
					}
					if when == "before" && r.err == nil && r.resp == nil {
						fail(what, "returned neither a response nor an error")
					}
				case <-time.After(5 * time.Second):
					fail(what, "the sub-request has not returned after 5s although its context is cancelled")
				}
				cancel()
				for len(entered) > 0 {
					<-entered
				}
			}
		}
	}

	// (b) through the gateway: a failing sibling cancels the context the other sub-request is started with
	for round := 0; round < 5; round++ {
		for _, c := range []struct{ query, when, want string }{
			{"{ quick boom }", "never", "error"},   // s1 is reached (after its delay) with a context the failure of s2 cancelled
			{"{ blocks boom }", "never", "error"},  // s1 blocks on its context
			{"{ quick fine }", "never", "ok"},      // nothing fails
			{"{ quick fine }", "before", "error"},  // the client is gone before the gateway starts
			{"{ blocks fine }", "during", "error"}, // the client goes away while s1 is working
		} {
			if failures >= 3 {
				continue
			}
			evals++
			what := fmt.Sprintf("gateway %s with the request context cancelled %s", c.query, c.when)
			q, err := graphql.Parse(c.query, map[string]interface{}{})
			if err != nil {
				t.Fatal(err)
			}
			ctx, cancel := context.WithCancel(bg)
			if c.when == "before" {
				cancel()
			}
			type result struct {
				res interface{}
				err error
			}
			done := make(chan result, 1)
			go func() {
				res, _, err := gateway.Execute(ctx, q, nil)
				done <- result{res, err}
			}()
			if c.when == "during" {
				time.Sleep(25 * time.Millisecond)
				cancel()
			}
			select {
			case r := <-done:
				if c.want == "ok" {
					b, _ := json.Marshal(r.res)
					if r.err != nil || string(b) != `{"fine":"fine","quick":"ok"}` {
						fail(what, fmt.Sprintf("result %s, error %v", b, r.err))
					}
				} else if r.err == nil {
					fail(what, "no error although a sub-query failed or the request was cancelled")
				}
			case <-time.After(5 * time.Second):
				fail(what, "the gateway has not returned after 5s: a sub-request blocks although its context is cancelled")
			}
			cancel()
		}
	}
	deadline := time.Now().Add(2 * time.Second)
	for runtime.NumGoroutine() > before && time.Now().Before(deadline) {
		time.Sleep(10 * time.Millisecond)
	}
	evals++
	if after := runtime.NumGoroutine(); after > before {
		fail("goroutines after all requests are over", fmt.Sprintf("%d goroutines before, %d after: requests left goroutines behind", before, after))
	}
	fmt.Printf("VERIF-SAMPLE: gateway { quick boom }: the sub-request for quick starts after boom's failure cancelled the shared context\n")
	fmt.Printf("VERIF-BOUNDED: evaluations=%d distinct=%d failures=%d\n", evals, 12, failures)
}
