package federation

// Bounded stand-in for C15 on the gateway's own validation: the gateway receives parsed queries that were never validated
// against any schema; queries that do not fit the merged schema (unknown fields and types, sub-selections on scalars, objects
// without sub-selections, fragments on types that do not apply, arguments the field does not take, unknown root kinds) must
// be answered with an error - by the planner or by the service that receives the sub-query - and never panic or hang.
// Labelled bounded.

import (
	"context"
	"encoding/json"
	"fmt"
	"testing"
	"time"

	"github.com/samsarahq/thunder/graphql"
	"github.com/samsarahq/thunder/graphql/schemabuilder"
)

func TestVerifBounded_C15_GatewayInvalid(t *testing.T) {
	ctx := context.Background()
	cnt := &c06Counter{}
	s1 := schemabuilder.NewSchemaWithName("s1")
	c06Service1(s1, cnt)
	s2 := schemabuilder.NewSchemaWithName("s2")
	u2 := s2.Object("C06User", C06User{}, schemabuilder.FetchObjectFromKeys(func(args struct{ Keys []*C06User }) []*C06User { return args.Keys }))
	u2.Key("id")
	c06Service2(s2, u2)
	execs := map[string]ExecutorClient{}
	for name, sb := range map[string]*schemabuilder.Schema{"s1": s1, "s2": s2} {
		srv, err := NewServer(sb.MustBuild())
		if err != nil {
			t.Fatal(err)
		}
		execs[name] = &DirectExecutorClient{Client: srv}
	}
	gateway, err := NewExecutor(ctx, execs, &SchemaSyncerConfig{SchemaSyncer: NewIntrospectionSchemaSyncer(ctx, execs, nil)})
	if err != nil {
		t.Fatal(err)
	}
	type tc struct {
		query string
		valid bool
	}
	cases := []tc{
		{`{ users { id } }`, true},
		{`{ nope }`, false}, {`{ users }`, false}, {`{ users { nope } }`, false}, {`{ users { id { x } } }`, false}, {`{ users { device } }`, false},
		{`{ users { badge { x } } }`, false}, {`{ users { device { nope } } }`, false}, {`{ users { ... on Nope { id } } }`, false},
		{`{ users { ... on C06Device { label } } }`, false}, {`{ things { id } }`, false}, {`{ things { ... on Nope { id } } }`, false},
		{`{ things { ... on C06User { nope } } }`, false}, {`{ user { id } }`, false}, {`{ user(id: "x") { id } }`, false}, {`{ user(id: 1, nope: 2) { id } }`, true},
		{`{ version { x } }`, false}, {`{ users { ...F } } fragment F on Nope { id }`, false}, {`{ users { ...F } } fragment F on C06User { nope }`, false},
		{`mutation { nope }`, false}, {`mutation { newUser { id } }`, false}, {`mutation { newUser(name: 5) { id } }`, false}, {`mutation { users { id } }`, false},
		{`{ __typename }`, true}, {`{ users { __typename { x } } }`, false}, {`{ _federation { x } }`, false}, {`{ users { _federation { id } } }`, false}, {`{ users { __key } }`, false},
	}
	evals, failures := 0, 0
	for _, c := range cases {
		evals++
		type outcome struct {
			panicked interface{}
			err      error
			res      interface{}
		}
		done := make(chan outcome, 1)
		go func() {
			var o outcome
			func() {
				defer func() { o.panicked = recover() }()
				q, err := graphql.Parse(c.query, map[string]interface{}{})
				if err != nil {
					o.err = err
					return
				}
				o.res, _, o.err = gateway.Execute(ctx, q, nil)
			}()
			done <- o
		}()
		detail := ""
		select {
		case o := <-done:
			switch {
			case o.panicked != nil:
				detail = fmt.Sprintf("panic: %v", o.panicked)
			case c.valid && o.err != nil:
				detail = "a query that fits the merged schema is refused: " + o.err.Error()
			}
		case <-time.After(5 * time.Second):
			detail = "not answered within 5s"
		}
		if detail != "" {
			failures++
			if failures <= 3 {
				b, _ := json.Marshal(map[string]interface{}{"query": c.query, "detail": detail})
				fmt.Printf("VERIF-FAIL-INPUT: %s\n", b)
				t.Errorf("%s: %s", c.query, detail)
			} else {
				t.Fail()
			}
		}
	}
	fmt.Printf("VERIF-SAMPLE: { users { ... on Nope { id } } } through the gateway\n")
	fmt.Printf("VERIF-BOUNDED: evaluations=%d distinct=%d failures=%d\n", evals, evals, failures)
}
