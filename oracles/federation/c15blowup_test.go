package federation

// Bounded stand-in for the time clause of C15 on the gateway ("repeated fragment spreads must not blow up exponentially"):
// queries that nest fragment spreads - every fragment spreading the next one twice - are parsed and run through the real
// gateway (planner, flattener, executor; one service) under a generous wall-clock limit. A kilobyte of such a query costs
// 2^depth steps if a shared fragment is inlined at every spread. Labelled bounded in the evidence.

import (
	"context"
	"fmt"
	"strings"
	"testing"
	"time"

	"github.com/samsarahq/thunder/graphql"
	"github.com/samsarahq/thunder/graphql/schemabuilder"
)

type C15GNode struct{ X int64 }

type C15GEither struct {
	schemabuilder.Union
	*C15GNode
}

func TestVerifBounded_C15_GatewayBlowup(t *testing.T) {
	s1 := schemabuilder.NewSchemaWithName("s1")
	obj := s1.Object("C15GNode", C15GNode{})
	obj.FieldFunc("self", func(n *C15GNode) *C15GNode { return n })
	obj.FieldFunc("either", func(n *C15GNode) *C15GEither { return &C15GEither{C15GNode: n} })
	s1.Query().FieldFunc("t", func() *C15GNode { return &C15GNode{1} })
	srv1, err := NewServer(s1.MustBuild())
	if err != nil {
		t.Fatal(err)
	}
	bg := context.Background()
	execs := map[string]ExecutorClient{"s1": &DirectExecutorClient{Client: srv1}}
	gateway, err := NewExecutor(bg, execs, &SchemaSyncerConfig{SchemaSyncer: NewIntrospectionSchemaSyncer(bg, execs, nil)})
	if err != nil {
		t.Fatal(err)
	}
	const limit = 3 * time.Second
	evals, failures := 0, 0
	type shape struct {
		name   string
		build  func(depth int) string
		depths []int
	}
	chain := func(head, on, body string, depth int) string {
		var b strings.Builder
		b.WriteString(head + "\n")
		for i := 0; i < depth; i++ {
			fmt.Fprintf(&b, "fragment F%d on %s { %s }\n", i, on, strings.NewReplacer("$i", fmt.Sprint(i), "$n", fmt.Sprintf("...F%d ...F%d", i+1, i+1)).Replace(body))
		}
		fmt.Fprintf(&b, "fragment F%d on %s { x }\n", depth, on)
		return b.String()
	}
	shapes := []shape{
		{"each fragment spreads the next one twice", func(d int) string { return chain("{ t { ...F0 } }", "C15GNode", "a$i: x $n", d) }, []int{10, 30, 100}},
		{"spreads below a field", func(d int) string { return chain("{ t { ...F0 } }", "C15GNode", "self { $n }", d) }, []int{10, 30, 100}},
		{"spreads under a union parent", func(d int) string {
			return chain("{ t { either { ...F0 } } }", "C15GNode", "b$i: x either { $n }", d)
		}, []int{8, 16, 22}},
		{"spreads on the union itself", func(d int) string {
			return chain("{ t { either { ...F0 } } }", "C15GEither", "... on C15GNode { c$i: x } $n", d)
		}, []int{8, 16, 22}},
	}
	for _, sh := range shapes {
		for _, depth := range sh.depths {
			evals++
			text := sh.build(depth)
			// the last fragment of the union shape must be valid on the union
			if strings.Contains(sh.name, "union itself") {
				text = strings.Replace(text, fmt.Sprintf("fragment F%d on C15GEither { x }", depth), fmt.Sprintf("fragment F%d on C15GEither { ... on C15GNode { x } }", depth), 1)
			}
			done := make(chan string, 1)
			go func() {
				q, err := graphql.Parse(text, nil)
				if err != nil {
					done <- "rejected by the parser: " + err.Error()
					return
				}
				if _, _, err := gateway.Execute(bg, q, nil); err != nil {
					done <- "rejected by the gateway: " + strings.SplitN(err.Error(), "\n", 2)[0]
					return
				}
				done <- ""
			}()
			select {
			case why := <-done:
				if why != "" && depth == sh.depths[0] {
					// the family is meant to be answered; a rejection of the smallest member means the harness tests nothing
					t.Logf("%s depth %d: %s", sh.name, depth, why)
				}
			case <-time.After(limit):
				failures++
				detail := fmt.Sprintf("%s, depth %d: a query of %d bytes is not answered by the gateway within %v", sh.name, depth, len(text), limit)
				if failures <= 3 {
					fmt.Printf("VERIF-FAIL-INPUT: {\"shape\": %q, \"depth\": %d, \"bytes\": %d, \"detail\": %q}\n", sh.name, depth, len(text), detail)
				}
				t.Error(detail)
				goto nextShape
			}
		}
	nextShape:
	}
	fmt.Printf("VERIF-SAMPLE: gateway: fragment Fi on T { ai: x ...Fi+1 ...Fi+1 } nested 100 deep\n")
	fmt.Printf("VERIF-BOUNDED: evaluations=%d distinct=%d failures=%d\n", evals, evals, failures)
}
