package federation

import (
	"fmt"
	"reflect"
	"testing"

	"github.com/samsarahq/thunder/graphql"
)

// Oracle for mergeSameAlias (C06: "regardless of how often aliases and fragments repeat"): the merged selection of an
// alias carries every sub-selection and every fragment of every occurrence of that alias (nothing is dropped), and the
// selections handed in - which belong to the parsed query - are not modified.
func verifLeaf(alias, name string, sub ...*graphql.Selection) *graphql.Selection {
	s := &graphql.Selection{Alias: alias, Name: name}
	if len(sub) > 0 {
		s.SelectionSet = &graphql.SelectionSet{Selections: sub}
	}
	return s
}

func verifSubLists() [][]*graphql.Selection {
	mk := func(kind int) *graphql.Selection {
		switch kind {
		case 0:
			return verifLeaf("id", "id")
		case 1:
			return verifLeaf("device", "device", verifLeaf("id", "id"))
		case 2:
			return verifLeaf("device", "device", verifLeaf("temp", "temp"))
		default:
			return verifLeaf("x", "id")
		}
	}
	var out [][]*graphql.Selection
	for a := 0; a < 4; a++ {
		out = append(out, []*graphql.Selection{mk(a)})
		for b := 0; b < 4; b++ {
			out = append(out, []*graphql.Selection{mk(a), mk(b)})
		}
	}
	return out
}

func verifDeepCopySel(s *graphql.Selection) *graphql.Selection {
	if s == nil {
		return nil
	}
	cp := *s
	if s.SelectionSet != nil {
		ss := &graphql.SelectionSet{}
		for _, c := range s.SelectionSet.Selections {
			ss.Selections = append(ss.Selections, verifDeepCopySel(c))
		}
		ss.Fragments = append(ss.Fragments, s.SelectionSet.Fragments...)
		cp.SelectionSet = ss
	}
	return &cp
}

func TestVerifBounded_C06_MergeSameAlias(t *testing.T) {
	subs := verifSubLists()
	evals, distinct, failures := 0, 0, 0
	first := ""
	for i := range subs {
		for j := range subs {
			evals++
			if i != j {
				distinct++
			}
			// two occurrences of `users`, plus an unrelated alias
			occ1 := verifLeaf("users", "users", verifSubLists()[i]...)
			occ2 := verifLeaf("users", "users", verifSubLists()[j]...)
			other := verifLeaf("me", "me", verifLeaf("id", "id"))
			in := []*graphql.Selection{occ1, other, occ2}
			snapshot := []*graphql.Selection{verifDeepCopySel(occ1), verifDeepCopySel(other), verifDeepCopySel(occ2)}
			want := map[*graphql.Selection]bool{}
			for _, s := range occ1.SelectionSet.Selections {
				want[s] = true
			}
			for _, s := range occ2.SelectionSet.Selections {
				want[s] = true
			}
			out, err := mergeSameAlias([]*graphql.Selection{occ1, other, occ2})
			bad := ""
			if err != nil {
				bad = "error: " + err.Error()
			} else {
				var merged *graphql.Selection
				for _, s := range out {
					if s.Alias == "users" {
						if merged != nil {
							bad = "alias users appears twice in the output"
						}
						merged = s
					}
				}
				if merged == nil || merged.SelectionSet == nil {
					bad = "alias users lost"
				} else {
					got := map[*graphql.Selection]bool{}
					for _, s := range merged.SelectionSet.Selections {
						got[s] = true
					}
					for s := range want {
						if !got[s] {
							bad = fmt.Sprintf("sub-selection %s{...} of an occurrence is missing from the merged selection", s.Alias)
						}
					}
				}
			}
			for k := range in {
				if bad == "" && !reflect.DeepEqual(in[k], snapshot[k]) {
					bad = "an input selection (part of the parsed query) was modified"
				}
			}
			if bad != "" {
				failures++
				if first == "" {
					show := func(l []*graphql.Selection) []string {
						var o []string
						for _, s := range l {
							t := s.Alias
							if s.SelectionSet != nil {
								t += "{" + s.SelectionSet.Selections[0].Alias + "}"
							}
							o = append(o, t)
						}
						return o
					}
					first = verifJSON(map[string]interface{}{"users#1": show(occ1.SelectionSet.Selections), "users#2": show(occ2.SelectionSet.Selections), "detail": bad})
				}
			}
		}
	}
	if first != "" {
		fmt.Printf("VERIF-FAIL-INPUT: %s\n", first)
	}
	fmt.Printf("VERIF-SAMPLE: { users { id } users { device { id } device { temp } } }\n")
	fmt.Printf("VERIF-BOUNDED: evaluations=%d distinct=%d failures=%d\n", evals, distinct, failures)
}
