package batch

import (
	"context"
	"sync"
	"testing"
	"time"
)

// Replay for lockset obligations of package batch: many goroutines Invoke the same Func concurrently. Run with -race.
func TestVerifRace_batch(t *testing.T) {
	f := &Func{
		Many: func(ctx context.Context, args []interface{}) ([]interface{}, error) {
			return args, nil
		},
		MaxSize:      3,
		WaitInterval: time.Millisecond,
	}
	ctx := WithBatching(context.Background())
	var wg sync.WaitGroup
	for i := 0; i < 40; i++ {
		wg.Add(1)
		go func(i int) {
			defer wg.Done()
			r, err := f.Invoke(ctx, i)
			if err != nil || r.(int) != i {
				t.Errorf("Invoke(%d) = %v, %v", i, r, err)
			}
		}(i)
	}
	wg.Wait()
}
