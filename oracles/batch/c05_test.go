package batch

// Bounded stand-in for the whole-history clauses of C05 (schedules are outside the contracts): many goroutines call
// Invoke concurrently; every call must get the element of the batch result that belongs to its own argument, or the batch's
// error; every argument is handed to Many exactly once; no batch exceeds MaxSize or mixes shards; every call returns when
// Many fails, panics or returns the wrong number of results. Labelled bounded in the evidence.

import (
	"context"
	"errors"
	"fmt"
	"sync"
	"testing"
	"time"
)

type c05Mode int

const (
	c05OK c05Mode = iota
	c05Error
	c05Panic
	c05Short
)

func c05Round(n, maxSize int, sharded bool, mode c05Mode) (string, bool) {
	var mu sync.Mutex
	seen := map[int]int{}
	var batches [][]int
	f := &Func{
		MaxSize:      maxSize,
		WaitInterval: 2 * time.Millisecond,
		Many: func(ctx context.Context, args []interface{}) ([]interface{}, error) {
			mu.Lock()
			var b []int
			for _, a := range args {
				seen[a.(int)]++
				b = append(b, a.(int))
			}
			batches = append(batches, b)
			mu.Unlock()
			switch mode {
			case c05Error:
				return nil, errors.New("many failed")
			case c05Panic:
				panic("many panicked")
			case c05Short:
				return make([]interface{}, len(args)+1), nil
			}
			out := make([]interface{}, len(args))
			for i, a := range args {
				out[i] = a.(int)*1000 + 7
			}
			return out, nil
		},
	}
	if sharded {
		f.Shard = func(arg interface{}) interface{} { return arg.(int) % 3 }
	}
	ctx := WithBatching(context.Background())
	type res struct {
		arg int
		v   interface{}
		err error
	}
	results := make(chan res, n)
	for i := 0; i < n; i++ {
		i := i
		go func() {
			v, err := f.Invoke(ctx, i)
			results <- res{i, v, err}
		}()
	}
	timeout := time.After(5 * time.Second)
	for k := 0; k < n; k++ {
		select {
		case r := <-results:
			if mode == c05OK {
				if r.err != nil {
					return fmt.Sprintf("call with argument %d failed: %v", r.arg, r.err), true
				}
				if r.v != r.arg*1000+7 {
					return fmt.Sprintf("call with argument %d received %v, the result for its own argument is %d", r.arg, r.v, r.arg*1000+7), true
				}
			} else if r.err == nil {
				return fmt.Sprintf("call with argument %d returned %v although the batch failed", r.arg, r.v), true
			}
		case <-timeout:
			return fmt.Sprintf("%d of %d calls did not return", n-k, n), true
		}
	}
	mu.Lock()
	defer mu.Unlock()
	for i := 0; i < n; i++ {
		if seen[i] != 1 {
			return fmt.Sprintf("argument %d was handed to Many %d times", i, seen[i]), true
		}
	}
	for _, b := range batches {
		if maxSize > 0 && len(b) > maxSize {
			return fmt.Sprintf("a batch of %d exceeds MaxSize %d", len(b), maxSize), true
		}
		if sharded {
			for _, a := range b {
				if a%3 != b[0]%3 {
					return fmt.Sprintf("batch %v mixes shards", b), true
				}
			}
		}
	}
	return "", false
}

func TestVerifBounded_C05_Pairing(t *testing.T) {
	evals, distinct, failures := 0, 0, 0
	for _, n := range []int{1, 2, 3, 7, 16} {
		for _, maxSize := range []int{0, 1, 3} {
			for _, sharded := range []bool{false, true} {
				for _, mode := range []c05Mode{c05OK, c05Error, c05Panic, c05Short} {
					distinct++
					for rep := 0; rep < 3; rep++ {
						evals++
						if detail, bad := c05Round(n, maxSize, sharded, mode); bad {
							failures++
							if failures <= 3 {
								fmt.Printf("VERIF-FAIL-INPUT: {\"callers\": %d, \"max_size\": %d, \"sharded\": %v, \"mode\": %d, \"detail\": %q}\n", n, maxSize, sharded, mode, detail)
								t.Errorf("n=%d maxSize=%d sharded=%v mode=%d: %s", n, maxSize, sharded, mode, detail)
							} else {
								t.Fail()
							}
						}
					}
				}
			}
		}
	}
	// a cancelled context: every call still returns, and no argument is handed to Many more than once
	evals++
	ctx, cancel := context.WithCancel(WithBatching(context.Background()))
	calls := 0
	f := &Func{WaitInterval: 50 * time.Millisecond, Many: func(ctx context.Context, args []interface{}) ([]interface{}, error) {
		calls += len(args)
		return make([]interface{}, len(args)), nil
	}}
	done := make(chan struct{}, 4)
	for i := 0; i < 4; i++ {
		go func(i int) { f.Invoke(ctx, i); done <- struct{}{} }(i)
	}
	time.Sleep(5 * time.Millisecond)
	cancel()
	for i := 0; i < 4; i++ {
		select {
		case <-done:
		case <-time.After(3 * time.Second):
			failures++
			t.Errorf("a call did not return after the context was cancelled")
			fmt.Printf("VERIF-FAIL-INPUT: {\"detail\": \"a call did not return after the context was cancelled\"}\n")
			i = 4
		}
	}
	if calls > 4 {
		failures++
		t.Errorf("arguments handed to Many more than once after cancellation")
	}
	fmt.Printf("VERIF-SAMPLE: 16 callers, MaxSize 3, sharded by arg %% 3, Many panics\n")
	fmt.Printf("VERIF-BOUNDED: evaluations=%d distinct=%d failures=%d\n", evals, distinct, failures)
}
