package concurrencylimiter

import (
	"context"
	"fmt"
	"os"
	"strings"
	"sync/atomic"
	"testing"
)

// Sequential oracle for C20: at every quiescent point the number of tokens in the limiter channel equals the number of
// holders whose status is acquired; after every holder released, no token is left; release is idempotent.
type verifOp struct {
	kind  string // "rel", "tmp"
	who   int
	inner []verifOp
}

func (o verifOp) String() string {
	if o.kind == "rel" {
		return fmt.Sprintf("release(%c)", 'A'+o.who)
	}
	var in []string
	for _, i := range o.inner {
		in = append(in, i.String())
	}
	return fmt.Sprintf("tmp(%c){%s}", 'A'+o.who, strings.Join(in, ";"))
}

func verifC20Run(ops []verifOp, cancelled bool) (bad bool, detail string) {
	const limit = 2
	base, cancel := context.WithCancel(context.Background())
	defer cancel()
	ctx := With(base, limit)
	l := ctx.Value(limiterKey{}).(*limiter)
	var ctxs [2]context.Context
	var rels [2]ReleaseFunc
	var hs [2]*holder
	for i := range ctxs {
		ctxs[i], rels[i] = Acquire(ctx)
		hs[i], _ = ctxs[i].Value(holderKey{}).(*holder)
	}
	check := func(where string) {
		if bad {
			return
		}
		want := 0
		for _, h := range hs {
			if h != nil && atomic.LoadInt64(&h.status) == acquired {
				want++
			}
		}
		if len(l.ch) != want {
			bad, detail = true, fmt.Sprintf("%s: %d token(s) in the channel, %d holder(s) acquired", where, len(l.ch), want)
		}
	}
	var run func(ops []verifOp, depth int)
	run = func(ops []verifOp, depth int) {
		for _, o := range ops {
			switch o.kind {
			case "rel":
				rels[o.who]()
				check("after " + o.String())
			case "tmp":
				TemporarilyRelease(ctxs[o.who], func() {
					run(o.inner, depth+1)
				})
				check("after " + o.String())
			}
		}
	}
	check("after two Acquire")
	run(ops, 0)
	for i := range rels {
		rels[i]()
		rels[i]()
	}
	if !bad && len(l.ch) != 0 {
		bad, detail = true, fmt.Sprintf("after all holders released (twice): %d token(s) still in use", len(l.ch))
	}
	// Acquire on a cancelled context must take nothing
	if !bad && cancelled {
		cancel()
		for i := 0; i < 40 && !bad; i++ {
			_, r := Acquire(ctx)
			if len(l.ch) != 0 {
				r()
				if len(l.ch) != 0 {
					bad, detail = true, fmt.Sprintf("Acquire on a cancelled context left %d token(s) in use after its release func ran", len(l.ch))
				}
			}
		}
	}
	return
}

func TestVerifSearch_C20(t *testing.T) {
	leaf := []verifOp{{kind: "rel", who: 0}, {kind: "rel", who: 1}}
	var inner [][]verifOp
	inner = append(inner, nil)
	for _, a := range leaf {
		inner = append(inner, []verifOp{a})
		inner = append(inner, []verifOp{{kind: "tmp", who: 0}, a}, []verifOp{a, {kind: "tmp", who: a.who}})
	}
	var ops []verifOp
	ops = append(ops, leaf...)
	for who := 0; who < 2; who++ {
		for _, in := range inner {
			ops = append(ops, verifOp{kind: "tmp", who: who, inner: in})
		}
	}
	maxLen := 2
	if os.Getenv("VERIF_TIER") == "thorough" {
		maxLen = 3
	}
	evals, distinct, failures := 0, 0, 0
	var rec func(cur []verifOp, want int)
	rec = func(cur []verifOp, want int) {
		if len(cur) == want {
			evals++
			if want > 0 {
				distinct++
			}
			if bad, detail := verifC20Run(cur, want == 0); bad {
				failures++
				if failures == 1 {
					var s []string
					for _, o := range cur {
						s = append(s, o.String())
					}
					fmt.Printf("VERIF-FAIL-INPUT: %s\n", verifJSON(map[string]interface{}{"limit": 2, "sequence": s, "detail": detail}))
				}
			}
			return
		}
		for _, o := range ops {
			rec(append(append([]verifOp{}, cur...), o), want)
		}
	}
	for n := 0; n <= maxLen; n++ {
		rec(nil, n)
	}
	fmt.Printf("VERIF-SAMPLE: tmp(A){release(A);tmp(A){}} then release(A) twice\n")
	fmt.Printf("VERIF-BOUNDED: evaluations=%d distinct=%d failures=%d\n", evals, distinct, failures)
}
