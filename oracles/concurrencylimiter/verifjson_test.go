package concurrencylimiter

// Helpers shared by the replay / bounded harnesses that /verif injects into this package
// with `go test -overlay`. Nothing here is part of thunder.

import (
	"encoding/json"
	"fmt"
	"os"
	"testing"
)

type verifUnknownDyn struct{ Type string }

func verifLoadInput(t *testing.T) map[string]interface{} {
	path := os.Getenv("VERIF_INPUT")
	if path == "" {
		t.Skip("VERIF_INPUT not set")
	}
	data, err := os.ReadFile(path)
	if err != nil {
		t.Fatal(err)
	}
	var in map[string]interface{}
	if err := json.Unmarshal(data, &in); err != nil {
		t.Fatal(err)
	}
	return in
}

// verifAny turns the model encoding of an interface{} value into a Go value.
func verifAny(v interface{}) interface{} {
	m, ok := v.(map[string]interface{})
	if !ok || v == nil {
		return nil
	}
	ty, _ := m["$type"].(string)
	val := m["$value"]
	switch ty {
	case "bool":
		b, _ := val.(bool)
		return b
	case "int":
		f, _ := val.(float64)
		return int(f)
	case "int64":
		f, _ := val.(float64)
		return int64(f)
	case "float64":
		f, _ := val.(float64)
		return f
	case "string":
		s, _ := val.(string)
		return s
	case "map[string]interface{}":
		return verifMap(val)
	case "[]interface{}":
		l, _ := val.([]interface{})
		out := make([]interface{}, 0, len(l))
		for _, e := range l {
			out = append(out, verifAny(e))
		}
		return out
	}
	return verifUnknownDyn{ty}
}

func verifMap(v interface{}) map[string]interface{} {
	m, ok := v.(map[string]interface{})
	if !ok {
		return nil
	}
	out := map[string]interface{}{}
	ents, _ := m["entries"].(map[string]interface{})
	for k, e := range ents {
		out[k] = verifAny(e)
	}
	return out
}

func verifJSON(v interface{}) string {
	b, err := json.Marshal(v)
	if err != nil {
		return fmt.Sprintf("%#v", v)
	}
	return string(b)
}
