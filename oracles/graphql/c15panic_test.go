package graphql_test

// Bounded stand-in for the containment clause of C15 ("a resolver that panics fails only its own request with an error and
// leaves the connection and all other subscriptions working"): over a real connection (in-memory socket) every ordering of
// a small set of requests - a healthy subscription, a panicking subscription, a panicking mutation (nil-map write, explicit
// panic, nil dereference), a failing mutation, a healthy mutation - is played; every request must be answered (update /
// result for the healthy ones, exactly one error for the others) within the time limit whatever preceded it, and the
// healthy subscription must still deliver an update after an invalidation at the end. Labelled bounded.

import (
	"context"
	"encoding/json"
	"errors"
	"fmt"
	"testing"
	"time"

	"github.com/samsarahq/thunder/graphql"
	"github.com/samsarahq/thunder/graphql/schemabuilder"
	"github.com/samsarahq/thunder/reactive"
)

func TestVerifBounded_C15_PanicContained(t *testing.T) {
	type req struct {
		kind, query string // kind: subscribe | mutate
		healthy     bool
	}
	reqs := []req{
		{"subscribe", "{ counter }", true},
		{"subscribe", "{ boomQuery }", false},
		{"mutate", "mutation { boomMap }", false},
		{"mutate", "mutation { boomNil }", false},
		{"mutate", "mutation { fails }", false},
		{"mutate", "mutation { fine }", true},
	}
	// orderings: every rotation and its reverse, plus each unhealthy request sandwiched between two healthy mutations
	var orders [][]int
	n := len(reqs)
	for r := 0; r < n; r++ {
		var o, rev []int
		for k := 0; k < n; k++ {
			o = append(o, (r+k)%n)
		}
		for k := n - 1; k >= 0; k-- {
			rev = append(rev, o[k])
		}
		orders = append(orders, o, rev)
	}
	for bad := 1; bad <= 4; bad++ {
		orders = append(orders, []int{5, bad, 5, 0, bad, 5})
	}
	evals, failures := 0, 0
	fail := func(what, detail string) {
		failures++
		if failures <= 3 {
			b, _ := json.Marshal(map[string]interface{}{"history": what, "detail": detail})
			fmt.Printf("VERIF-FAIL-INPUT: %s\n", b)
			t.Errorf("%s: %s", what, detail)
		} else {
			t.Fail()
		}
	}
	for _, order := range orders {
		if failures >= 3 {
			break
		}
		evals++
		res := reactive.NewResource()
		counter := int64(0)
		sb := schemabuilder.NewSchema()
		sb.Query().FieldFunc("counter", func(ctx context.Context) int64 {
			reactive.AddDependency(ctx, res, nil)
			return counter
		})
		sb.Query().FieldFunc("boomQuery", func() (int64, error) { panic("query resolver panics") })
		var nilMap map[string]int
		var nilPtr *struct{ X int64 }
		sb.Mutation().FieldFunc("boomMap", func() bool { nilMap["k"] = 1; return true })
		sb.Mutation().FieldFunc("boomNil", func() int64 { return nilPtr.X })
		sb.Mutation().FieldFunc("fails", func() (bool, error) { return false, errors.New("mutation fails") })
		sb.Mutation().FieldFunc("fine", func() bool { return true })
		schema := sb.MustBuild()
		sock := &c02Socket{in: make(chan []byte, 64), out: make(chan map[string]interface{}, 256)}
		conn := graphql.CreateConnection(context.Background(), sock, schema, graphql.WithMinRerunInterval(time.Millisecond))
		done := make(chan struct{})
		go func() { conn.ServeJSONSocket(); close(done) }()
		what := ""
		subscribed := map[string]bool{}
		ok := true
		for step, ri := range order {
			r := reqs[ri]
			id := fmt.Sprintf("r%d", step)
			if r.kind == "subscribe" && r.healthy {
				if subscribed["counter"] {
					continue
				}
				subscribed["counter"] = true
				id = "live"
			}
			what += fmt.Sprintf("%s %s; ", r.kind, r.query)
			b, _ := json.Marshal(map[string]interface{}{"id": id, "type": r.kind, "message": map[string]interface{}{"query": r.query, "variables": map[string]interface{}{}}})
			sock.in <- b
			// the answer for this id
			var got map[string]interface{}
			deadline := time.After(5 * time.Second)
		wait:
			for {
				select {
				case m := <-sock.out:
					if m["id"] == id {
						got = m
						break wait
					}
				case <-deadline:
					break wait
				}
			}
			switch {
			case got == nil:
				fail(what, fmt.Sprintf("request %s (%s %s) got no answer within 5s: an earlier failing request left the connection unusable", id, r.kind, r.query))
				ok = false
			case r.healthy && got["type"] == "error":
				fail(what, fmt.Sprintf("healthy request %s answered with an error: %v", r.query, got["message"]))
				ok = false
			case !r.healthy && got["type"] != "error":
				fail(what, fmt.Sprintf("failing request %s answered with %v", r.query, got["type"]))
				ok = false
			}
			if !ok {
				break
			}
		}
		if ok && subscribed["counter"] {
			// the healthy subscription still works: an invalidation yields an update
			for len(sock.out) > 0 {
				<-sock.out
			}
			counter++
			res.Strobe()
			deadline := time.After(5 * time.Second)
			updated := false
		wait2:
			for {
				select {
				case m := <-sock.out:
					if m["id"] == "live" && m["type"] == "update" {
						updated = true
						break wait2
					}
				case <-deadline:
					break wait2
				}
			}
			if !updated {
				fail(what, "the healthy subscription delivers no update after an invalidation: a failing request affected it")
			}
		}
		close(sock.in)
		select {
		case <-done:
		case <-time.After(2 * time.Second):
			fail(what, "the connection does not shut down")
		}
	}
	fmt.Printf("VERIF-SAMPLE: mutate fine; mutate boomMap (nil-map write); mutate fine; subscribe counter; mutate boomMap; mutate fine; invalidate\n")
	fmt.Printf("VERIF-BOUNDED: evaluations=%d distinct=%d failures=%d\n", evals, evals, failures)
}
