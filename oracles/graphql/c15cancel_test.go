package graphql_test

// Bounded stand-in for the cancellation clause of C15 on the one-shot HTTP endpoint (goroutines and contexts are outside the
// contracts): a POST whose context is cancelled before the handler is entered, while the resolver is executing, or never,
// is served by the real HTTPHandler; ServeHTTP must return promptly in every case, a request that was not cancelled must be
// answered with the query's result, nothing may be written after ServeHTTP returned, and once all requests are over the
// number of goroutines is back to where it started. Labelled bounded.

import (
	"context"
	"encoding/json"
	"fmt"
	"net/http"
	"net/http/httptest"
	"runtime"
	"strings"
	"sync/atomic"
	"testing"
	"time"

	"github.com/samsarahq/thunder/graphql"
	"github.com/samsarahq/thunder/graphql/schemabuilder"
)

type c15LateWriter struct {
	*httptest.ResponseRecorder
	returned int32
	late     int32
}

func (w *c15LateWriter) Write(b []byte) (int, error) {
	if atomic.LoadInt32(&w.returned) != 0 {
		atomic.AddInt32(&w.late, 1)
	}
	return w.ResponseRecorder.Write(b)
}

func TestVerifBounded_C15_HTTPCancel(t *testing.T) {
	entered := make(chan struct{}, 64)
	sb := schemabuilder.NewSchema()
	sb.Query().FieldFunc("quick", func() string { return "ok" })
	sb.Query().FieldFunc("slow", func(ctx context.Context) (string, error) {
		entered <- struct{}{}
		select {
		case <-ctx.Done():
			return "", ctx.Err()
		case <-time.After(30 * time.Millisecond):
			return "late", nil
		}
	})
	sb.Mutation().FieldFunc("noop", func() bool { return true })
	handler := graphql.HTTPHandler(sb.MustBuild())

	evals, failures := 0, 0
	fail := func(what, detail string) {
		failures++
		if failures <= 3 {
			b, _ := json.Marshal(map[string]interface{}{"case": what, "detail": detail})
			fmt.Printf("VERIF-FAIL-INPUT: %s\n", b)
			t.Errorf("%s: %s", what, detail)
		} else {
			t.Fail()
		}
	}
	time.Sleep(20 * time.Millisecond)
	before := runtime.NumGoroutine()
	for round := 0; round < 6; round++ {
		for _, field := range []string{"quick", "slow"} {
			for _, when := range []string{"before", "during", "never"} {
				if failures >= 3 {
					continue
				}
				evals++
				what := fmt.Sprintf("POST { %s } with the request context cancelled %s the run", field, when)
				ctx, cancel := context.WithCancel(context.Background())
				req := httptest.NewRequest("POST", "/graphql", strings.NewReader(fmt.Sprintf(`{"query": "{ %s }", "variables": {}}`, field))).WithContext(ctx)
				w := &c15LateWriter{ResponseRecorder: httptest.NewRecorder()}
				if when == "before" {
					cancel()
				}
				done := make(chan struct{})
				go func() {
					handler.ServeHTTP(w, req)
					atomic.StoreInt32(&w.returned, 1)
					close(done)
				}()
				if when == "during" {
					if field == "slow" {
						select {
						case <-entered:
						case <-time.After(2 * time.Second):
						}
					}
					cancel()
				}
				select {
				case <-done:
				case <-time.After(5 * time.Second):
					fail(what, "ServeHTTP has not returned after 5s: the request blocks although its context is cancelled")
					cancel()
					continue
				}
				if when == "never" {
					want := `{"data":{"` + field + `":"` + map[string]string{"quick": "ok", "slow": "late"}[field] + `"},"errors":null}`
					if got := strings.TrimSpace(w.Body.String()); got != want {
						fail(what, fmt.Sprintf("response %s, expected %s", got, want))
					}
				}
				cancel()
				for len(entered) > 0 {
					<-entered
				}
				time.Sleep(2 * time.Millisecond)
				if atomic.LoadInt32(&w.late) != 0 {
					fail(what, "the response was written after ServeHTTP had returned")
				}
			}
		}
	}
	// no goroutine left behind
	deadline := time.Now().Add(2 * time.Second)
	for runtime.NumGoroutine() > before && time.Now().Before(deadline) {
		time.Sleep(10 * time.Millisecond)
	}
	evals++
	if after := runtime.NumGoroutine(); after > before {
		fail("goroutines after all requests are over", fmt.Sprintf("%d goroutines before, %d after: requests left goroutines behind", before, after))
	}
	fmt.Printf("VERIF-SAMPLE: POST { slow } with the request context cancelled before the run\n")
	fmt.Printf("VERIF-BOUNDED: evaluations=%d distinct=%d failures=%d\n", evals, 7, failures)
}

var _ http.Handler
