package graphql_test

// Bounded stand-in for the "all result shapes" part of C02 (objects appearing / disappearing, list reorders by key, union
// member switches, nulls): a subscription over a schema with keyed and unkeyed objects, nested nullable objects, lists of
// scalars, lists of lists and a list of union values is driven through pseudo-random histories of data changes over a real
// connection (in-memory socket); a client folds every update with merge.Merge; once the data stops changing the client must
// hold exactly what a fresh execution of the same query yields on the final data (internal keys stripped). Labelled bounded.

import (
	"context"
	"encoding/json"
	"fmt"
	"math/rand"
	"os"
	"reflect"
	"sync"
	"testing"
	"time"

	"github.com/samsarahq/thunder/diff"
	"github.com/samsarahq/thunder/graphql"
	"github.com/samsarahq/thunder/graphql/schemabuilder"
	"github.com/samsarahq/thunder/merge"
	"github.com/samsarahq/thunder/reactive"
)

type C02sNode struct {
	Id    int64
	Name  string
	Tags  []string
	Child *C02sNode
	Kids  []*C02sNode
}

type C02sLeaf struct {
	Id    int64
	Label string
}

type C02sPlain struct { // no key
	A int64
	B *string
}

type C02sThing struct {
	schemabuilder.Union
	*C02sNode
	*C02sLeaf
}

type c02sStore struct {
	mu     sync.Mutex
	things []*C02sThing
	root   *C02sNode
	names  []string
	matrix [][]int64
	plain  *C02sPlain
	plains []C02sPlain
	res    *reactive.Resource
}

func (s *c02sStore) change(f func()) {
	s.mu.Lock()
	f()
	s.mu.Unlock()
	s.res.Strobe()
}

func c02sClone(n *C02sNode) *C02sNode {
	if n == nil {
		return nil
	}
	c := *n
	c.Tags = append([]string(nil), n.Tags...)
	c.Child = c02sClone(n.Child)
	c.Kids = nil
	for _, k := range n.Kids {
		c.Kids = append(c.Kids, c02sClone(k))
	}
	return &c
}

func c02sSchema(s *c02sStore) *graphql.Schema {
	sb := schemabuilder.NewSchema()
	node := sb.Object("C02sNode", C02sNode{})
	node.Key("id")
	leaf := sb.Object("C02sLeaf", C02sLeaf{})
	leaf.Key("id")
	sb.Object("C02sPlain", C02sPlain{})
	q := sb.Query()
	dep := func(ctx context.Context) { reactive.AddDependency(ctx, s.res, nil) }
	q.FieldFunc("things", func(ctx context.Context) []*C02sThing {
		dep(ctx)
		s.mu.Lock()
		defer s.mu.Unlock()
		var out []*C02sThing
		for _, t := range s.things {
			c := &C02sThing{}
			if t.C02sNode != nil {
				c.C02sNode = c02sClone(t.C02sNode)
			}
			if t.C02sLeaf != nil {
				l := *t.C02sLeaf
				c.C02sLeaf = &l
			}
			out = append(out, c)
		}
		return out
	})
	q.FieldFunc("root", func(ctx context.Context) *C02sNode {
		dep(ctx)
		s.mu.Lock()
		defer s.mu.Unlock()
		return c02sClone(s.root)
	})
	q.FieldFunc("names", func(ctx context.Context) []string {
		dep(ctx)
		s.mu.Lock()
		defer s.mu.Unlock()
		return append([]string(nil), s.names...)
	})
	q.FieldFunc("matrix", func(ctx context.Context) [][]int64 {
		dep(ctx)
		s.mu.Lock()
		defer s.mu.Unlock()
		var out [][]int64
		for _, r := range s.matrix {
			out = append(out, append([]int64(nil), r...))
		}
		return out
	})
	q.FieldFunc("plain", func(ctx context.Context) *C02sPlain {
		dep(ctx)
		s.mu.Lock()
		defer s.mu.Unlock()
		if s.plain == nil {
			return nil
		}
		p := *s.plain
		return &p
	})
	q.FieldFunc("plains", func(ctx context.Context) []C02sPlain {
		dep(ctx)
		s.mu.Lock()
		defer s.mu.Unlock()
		return append([]C02sPlain(nil), s.plains...)
	})
	sb.Mutation().FieldFunc("noop", func() bool { return true })
	return sb.MustBuild()
}

const c02sQuery = `{
  things { __typename ... on C02sNode { id name tags child { id name } kids { id name tags } } ... on C02sLeaf { id label } }
  root { id name tags child { id name child { id name } } kids { id name kids { id } } }
  names matrix plain { a b } plains { a b }
}`

func c02sFresh(schema *graphql.Schema) (interface{}, error) {
	q, err := graphql.Parse(c02sQuery, nil)
	if err != nil {
		return nil, err
	}
	if err := graphql.PrepareQuery(context.Background(), schema.Query, q.SelectionSet); err != nil {
		return nil, err
	}
	v, err := graphql.NewExecutor(graphql.NewImmediateGoroutineScheduler()).Execute(context.Background(), schema.Query, nil, q)
	if err != nil {
		return nil, err
	}
	b, err := json.Marshal(diff.StripKey(v))
	if err != nil {
		return nil, err
	}
	var out interface{}
	return out, json.Unmarshal(b, &out)
}

func c02sHistory(seed int64) (string, bool) {
	rng := rand.New(rand.NewSource(seed))
	str := func(s string) *string { return &s }
	store := &c02sStore{res: reactive.NewResource(),
		things: []*C02sThing{{C02sNode: &C02sNode{Id: 1, Name: "n1"}}, {C02sLeaf: &C02sLeaf{Id: 2, Label: "l2"}}},
		root:   &C02sNode{Id: 10, Name: "root", Tags: []string{"a"}, Kids: []*C02sNode{{Id: 11, Name: "k11"}, {Id: 12, Name: "k12"}}},
		names:  []string{"x", "y"}, matrix: [][]int64{{1, 2}, {3}}, plain: &C02sPlain{A: 1, B: str("b")}, plains: []C02sPlain{{A: 1}, {A: 2, B: str("q")}},
	}
	schema := c02sSchema(store)
	sock := &c02Socket{in: make(chan []byte, 64), out: make(chan map[string]interface{}, 1024)}
	conn := graphql.CreateConnection(context.Background(), sock, schema, graphql.WithMinRerunInterval(time.Millisecond))
	done := make(chan struct{})
	go func() { conn.ServeJSONSocket(); close(done) }()
	defer func() {
		close(sock.in)
		select {
		case <-done:
		case <-time.After(5 * time.Second):
		}
	}()
	b, _ := json.Marshal(map[string]interface{}{"id": "S", "type": "subscribe", "message": map[string]interface{}{"query": c02sQuery, "variables": nil}})
	sock.in <- b
	var state interface{}
	problem := ""
	apply := func(msg map[string]interface{}) {
		switch msg["type"] {
		case "update":
			merged, err := merge.Merge(state, msg["message"])
			if err != nil && problem == "" {
				m, _ := json.Marshal(msg["message"])
				problem = fmt.Sprintf("an update cannot be applied to the client's state: %v (update %s)", err, m)
			}
			state = merged
		case "error":
			if problem == "" {
				problem = fmt.Sprintf("error message: %v", msg)
			}
		}
	}
	drain := func(d time.Duration) {
		deadline := time.After(d)
		for {
			select {
			case m := <-sock.out:
				apply(m)
			case <-deadline:
				return
			}
		}
	}
	next := int64(100)
	steps := 8 + rng.Intn(8)
	var log []string
	for k := 0; k < steps; k++ {
		op := rng.Intn(14)
		log = append(log, fmt.Sprint(op))
		store.change(func() {
			switch op {
			case 0: // a union value switches member in place, keeping its id
				if len(store.things) > 0 {
					i := rng.Intn(len(store.things))
					t := store.things[i]
					if t.C02sNode != nil {
						store.things[i] = &C02sThing{C02sLeaf: &C02sLeaf{Id: t.C02sNode.Id, Label: "was-node"}}
					} else {
						store.things[i] = &C02sThing{C02sNode: &C02sNode{Id: t.C02sLeaf.Id, Name: "was-leaf", Tags: []string{"t"}}}
					}
				}
			case 1: // append a union value
				next++
				if rng.Intn(2) == 0 {
					store.things = append(store.things, &C02sThing{C02sNode: &C02sNode{Id: next, Name: fmt.Sprint("n", next)}})
				} else {
					store.things = append(store.things, &C02sThing{C02sLeaf: &C02sLeaf{Id: next, Label: fmt.Sprint("l", next)}})
				}
			case 2: // remove a union value
				if len(store.things) > 0 {
					i := rng.Intn(len(store.things))
					store.things = append(append([]*C02sThing{}, store.things[:i]...), store.things[i+1:]...)
				}
			case 3: // reverse the union list
				for i, j := 0, len(store.things)-1; i < j; i, j = i+1, j-1 {
					store.things[i], store.things[j] = store.things[j], store.things[i]
				}
			case 4: // nested child appears / disappears / deepens
				if store.root != nil {
					switch {
					case store.root.Child == nil:
						next++
						store.root.Child = &C02sNode{Id: next, Name: "child"}
					case store.root.Child.Child == nil && rng.Intn(2) == 0:
						next++
						store.root.Child.Child = &C02sNode{Id: next, Name: "grandchild"}
					default:
						store.root.Child = nil
					}
				}
			case 5: // root disappears / reappears with another id
				if store.root != nil {
					store.root = nil
				} else {
					next++
					store.root = &C02sNode{Id: next, Name: "root2", Kids: []*C02sNode{{Id: 11, Name: "k11-again"}}}
				}
			case 6: // kids reorder and one gains kids of its own
				if store.root != nil && len(store.root.Kids) > 0 {
					k := store.root.Kids
					k[0], k[len(k)-1] = k[len(k)-1], k[0]
					next++
					k[0].Kids = append(k[0].Kids, &C02sNode{Id: next})
				}
			case 7: // tags change (list of scalars: append, clear, set to nil)
				if store.root != nil {
					switch rng.Intn(3) {
					case 0:
						store.root.Tags = append(store.root.Tags, fmt.Sprint("t", len(store.root.Tags)))
					case 1:
						store.root.Tags = []string{}
					default:
						store.root.Tags = nil
					}
				}
			case 8: // names: shuffle, duplicate, empty
				switch rng.Intn(3) {
				case 0:
					store.names = append([]string{"z"}, store.names...)
				case 1:
					store.names = append(store.names, store.names...)
				default:
					store.names = nil
				}
			case 9: // matrix: row appears, row emptied, cell changes
				switch rng.Intn(3) {
				case 0:
					store.matrix = append(store.matrix, []int64{int64(k)})
				case 1:
					if len(store.matrix) > 0 {
						store.matrix[0] = []int64{}
					}
				default:
					if len(store.matrix) > 0 && len(store.matrix[len(store.matrix)-1]) > 0 {
						store.matrix[len(store.matrix)-1][0]++
					}
				}
			case 10: // unkeyed object: field to null and back, object to null and back
				if store.plain == nil {
					store.plain = &C02sPlain{A: int64(k)}
				} else if store.plain.B != nil {
					store.plain.B = nil
				} else if rng.Intn(2) == 0 {
					store.plain.B = str(fmt.Sprint("b", k))
				} else {
					store.plain = nil
				}
			case 11: // list of unkeyed objects: grow, shrink, change in place
				switch rng.Intn(3) {
				case 0:
					store.plains = append(store.plains, C02sPlain{A: int64(k)})
				case 1:
					if len(store.plains) > 0 {
						store.plains = store.plains[1:]
					}
				default:
					if len(store.plains) > 0 {
						store.plains[0].A += 5
						store.plains[0].B = nil
					}
				}
			case 12: // a node in the union list gets children / tags
				for _, t := range store.things {
					if t.C02sNode != nil {
						next++
						t.C02sNode.Kids = append(t.C02sNode.Kids, &C02sNode{Id: next, Name: "kid", Tags: []string{"k"}})
						t.C02sNode.Child = &C02sNode{Id: t.C02sNode.Id, Name: "same-id-as-parent"}
						break
					}
				}
			case 13: // everything emptied
				store.things, store.names, store.matrix, store.plains = nil, nil, nil, nil
			}
		})
		drain(time.Duration(rng.Intn(4)) * time.Millisecond)
	}
	deadline := time.Now().Add(4 * time.Second)
	for {
		drain(20 * time.Millisecond)
		if problem != "" {
			return fmt.Sprintf("%s (operations %v)", problem, log), true
		}
		want, err := c02sFresh(schema)
		if err != nil {
			return "fresh execution fails: " + err.Error(), true
		}
		sb, _ := json.Marshal(diff.StripKey(state))
		var got interface{}
		json.Unmarshal(sb, &got)
		if reflect.DeepEqual(got, want) {
			return "", false
		}
		if time.Now().After(deadline) {
			w, _ := json.Marshal(want)
			return fmt.Sprintf("after the data stopped changing the client holds %s, a fresh execution yields %s (operations %v)", sb, w, log), true
		}
	}
}

func TestVerifBounded_C02_Shapes(t *testing.T) {
	seed := int64(1)
	fmt.Sscan(os.Getenv("VERIF_SEED"), &seed)
	n := 40
	if os.Getenv("VERIF_TIER") == "thorough" {
		n = 400
	}
	evals, failures := 0, 0
	for k := 0; k < n; k++ {
		if failures >= 3 {
			break // three failing histories are enough to report; each further one costs its whole timeout
		}
		evals++
		if detail, bad := c02sHistory(seed*1000 + int64(k)); bad {
			failures++
			if failures <= 3 {
				b, _ := json.Marshal(map[string]interface{}{"history_seed": seed*1000 + int64(k), "detail": detail})
				fmt.Printf("VERIF-FAIL-INPUT: %s\n", b)
				t.Errorf("history %d: %s", seed*1000+int64(k), detail)
			} else {
				t.Fail()
			}
		}
	}
	fmt.Printf("VERIF-SAMPLE: a union value switching member in place (same id), nested child appearing and deepening, lists of scalars and of lists emptied\n")
	fmt.Printf("VERIF-BOUNDED: evaluations=%d distinct=%d failures=%d\n", evals, evals, failures)
}
