package graphql_test

// Bounded stand-in for the whole-connection clauses of C11 that the contracts do not reach (sort, text filter, totalCount
// and the resolver plumbing are reflection-driven): a paginated field is walked through the real Parse / PrepareQuery /
// Execute, forward with first/after and backward with last/before, for every list, page size, sort field and order, and
// filter text of the family below. The walk must visit every element that passes the filter exactly once, in the
// requested (stable) order; totalCount is the filtered count on every page; hasNextPage / hasPrevPage and the start / end
// cursors are what the property says. Labelled bounded in the evidence.

import (
	"context"
	"encoding/json"
	"fmt"
	"sort"
	"strings"
	"testing"

	"github.com/samsarahq/thunder/batch"
	"github.com/samsarahq/thunder/graphql"
	"github.com/samsarahq/thunder/graphql/schemabuilder"
)

type c11Item struct {
	Id   int64
	Name string
	Rank int64
}

type c11Variant int

const (
	c11Plain c11Variant = iota
	c11Expensive
	c11Batch
	c11BatchPtr     // batch filter / sort functions over map[batch.Index]*c11Item (sources copied per index)
	c11FallbackOff  // batch-with-fallback, the flag says "do not batch": the plain fallback implementation must be used
	c11FallbackOn   // batch-with-fallback, the flag says "batch"
)

func c11Schema(items []c11Item, v c11Variant) *graphql.Schema {
	sb := schemabuilder.NewSchema()
	obj := sb.Object("c11Item", c11Item{})
	obj.Key("id")
	var opts []schemabuilder.FieldFuncOption
	opts = append(opts, schemabuilder.Paginated)
	switch v {
	case c11Plain:
		opts = append(opts,
			schemabuilder.FilterField("name", func(i c11Item) string { return i.Name }),
			schemabuilder.FilterField("code", func(i c11Item) string { return c11Code(i) }),
			schemabuilder.SortField("rank", func(i c11Item) int64 { return i.Rank }),
			schemabuilder.SortField("name", func(i c11Item) string { return i.Name }))
	case c11Expensive:
		opts = append(opts,
			schemabuilder.FilterField("name", func(ctx context.Context, i c11Item) string { return i.Name }, schemabuilder.Expensive),
			schemabuilder.FilterField("code", func(ctx context.Context, i c11Item) string { return c11Code(i) }, schemabuilder.Expensive),
			schemabuilder.SortField("rank", func(ctx context.Context, i c11Item) int64 { return i.Rank }, schemabuilder.Expensive),
			schemabuilder.SortField("name", func(ctx context.Context, i c11Item) string { return i.Name }, schemabuilder.Expensive))
	case c11Batch:
		opts = append(opts,
			schemabuilder.BatchFilterField("name", func(ctx context.Context, in map[batch.Index]c11Item) (map[batch.Index]string, error) {
				out := map[batch.Index]string{}
				for k, i := range in {
					out[k] = i.Name
				}
				return out, nil
			}),
			schemabuilder.BatchSortField("rank", func(ctx context.Context, in map[batch.Index]c11Item) (map[batch.Index]int64, error) {
				out := map[batch.Index]int64{}
				for k, i := range in {
					out[k] = i.Rank
				}
				return out, nil
			}),
			schemabuilder.BatchSortField("name", func(ctx context.Context, in map[batch.Index]c11Item) (map[batch.Index]string, error) {
				out := map[batch.Index]string{}
				for k, i := range in {
					out[k] = i.Name
				}
				return out, nil
			}))
	case c11BatchPtr:
		opts = append(opts,
			schemabuilder.BatchFilterField("name", func(ctx context.Context, in map[batch.Index]*c11Item) (map[batch.Index]string, error) {
				out := map[batch.Index]string{}
				for k, i := range in {
					out[k] = i.Name
				}
				return out, nil
			}),
			schemabuilder.BatchSortField("rank", func(ctx context.Context, in map[batch.Index]*c11Item) (map[batch.Index]int64, error) {
				out := map[batch.Index]int64{}
				for k, i := range in {
					out[k] = i.Rank
				}
				return out, nil
			}),
			schemabuilder.BatchSortField("name", func(ctx context.Context, in map[batch.Index]*c11Item) (map[batch.Index]string, error) {
				out := map[batch.Index]string{}
				for k, i := range in {
					out[k] = i.Name
				}
				return out, nil
			}))
	case c11FallbackOff, c11FallbackOn:
		flag := func(context.Context) bool { return v == c11FallbackOn }
		opts = append(opts,
			schemabuilder.BatchFilterFieldWithFallback("name", func(ctx context.Context, in map[batch.Index]c11Item) (map[batch.Index]string, error) {
				out := map[batch.Index]string{}
				for k, i := range in {
					out[k] = i.Name
				}
				return out, nil
			}, func(ctx context.Context, i c11Item) (string, error) { return i.Name, nil }, flag),
			schemabuilder.BatchSortFieldWithFallback("rank", func(ctx context.Context, in map[batch.Index]c11Item) (map[batch.Index]int64, error) {
				out := map[batch.Index]int64{}
				for k, i := range in {
					out[k] = i.Rank
				}
				return out, nil
			}, func(ctx context.Context, i c11Item) (int64, error) { return i.Rank, nil }, flag),
			schemabuilder.BatchSortFieldWithFallback("name", func(ctx context.Context, in map[batch.Index]c11Item) (map[batch.Index]string, error) {
				out := map[batch.Index]string{}
				for k, i := range in {
					out[k] = i.Name
				}
				return out, nil
			}, func(ctx context.Context, i c11Item) (string, error) { return i.Name, nil }, flag))
	}
	sb.Query().FieldFunc("items", func() []c11Item { return items }, opts...)
	sb.Mutation().FieldFunc("noop", func() bool { return true })
	return sb.MustBuild()
}

type c11Page struct {
	Items struct {
		TotalCount int64
		Edges      []struct {
			Node   struct{ Id int64 }
			Cursor string
		}
		PageInfo struct {
			HasNextPage bool
			HasPrevPage bool
			StartCursor string
			EndCursor   string
		}
	}
}

func c11Fetch(schema *graphql.Schema, args string) (*c11Page, string, error) {
	query := fmt.Sprintf(`{ items(%s) { totalCount edges { node { id } cursor } pageInfo { hasNextPage hasPrevPage startCursor endCursor } } }`, args)
	q, err := graphql.Parse(query, nil)
	if err != nil {
		return nil, query, err
	}
	if err := graphql.PrepareQuery(context.Background(), schema.Query, q.SelectionSet); err != nil {
		return nil, query, err
	}
	ctx := batch.WithBatching(context.Background())
	v, err := graphql.NewExecutor(graphql.NewImmediateGoroutineScheduler()).Execute(ctx, schema.Query, nil, q)
	if err != nil {
		return nil, query, err
	}
	raw, _ := json.Marshal(v)
	var p c11Page
	if err := json.Unmarshal(raw, &p); err != nil {
		return nil, query, err
	}
	return &p, query, nil
}

// the order the property demands: the elements passing the filter, stably sorted
// a second text-filter field (plain and expensive implementations): no letter of the name filters occurs in it
func c11Code(i c11Item) string { return fmt.Sprintf("k%d", i.Rank) }

// fields: the filterTextFields the query restricts the text filter to ("" = not given: every registered field);
// hasCode: the implementation registers the second filter field
func c11Oracle(items []c11Item, filter, fields string, hasCode bool, sortBy, order string) []int64 {
	var kept []c11Item
	for _, it := range items {
		match := filter == ""
		if (fields == "" || fields == "name") && strings.Contains(strings.ToLower(it.Name), strings.ToLower(filter)) {
			match = true
		}
		if hasCode && (fields == "" || fields == "code") && strings.Contains(strings.ToLower(c11Code(it)), strings.ToLower(filter)) {
			match = true
		}
		if match {
			kept = append(kept, it)
		}
	}
	less := func(a, b c11Item) bool {
		switch sortBy {
		case "rank":
			return a.Rank < b.Rank
		case "name":
			return strings.ToLower(a.Name) < strings.ToLower(b.Name)
		}
		return false
	}
	if sortBy != "" {
		sort.SliceStable(kept, func(i, j int) bool {
			if order == "desc" {
				return less(kept[j], kept[i])
			}
			return less(kept[i], kept[j])
		})
	}
	ids := []int64{}
	for _, it := range kept {
		ids = append(ids, it.Id)
	}
	return ids
}

func TestVerifBounded_C11_Walk(t *testing.T) {
	lists := [][]c11Item{
		{},
		{{1, "a", 1}},
		{{1, "ab", 2}, {2, "b", 2}, {3, "Ac", 1}},
		{{5, "x", 3}, {4, "ax", 3}, {3, "xa", 1}, {2, "b", 3}, {1, "A", 2}},
		{{1, "a", 1}, {2, "a", 1}, {3, "a", 1}, {4, "a", 1}},
		{{7, "ca", 0}, {6, "b", 9}, {5, "Ba", 9}, {4, "d", 0}, {3, "ad", 5}, {2, "e", 9}, {1, "ae", 0}},
	}
	evals, distinct, failures := 0, 0, 0
	fail := func(query, detail string) {
		failures++
		if failures <= 3 {
			b, _ := json.Marshal(map[string]interface{}{"query": query, "detail": detail})
			fmt.Printf("VERIF-FAIL-INPUT: %s\n", b)
			t.Errorf("%s: %s", query, detail)
		} else {
			t.Fail()
		}
	}
	for li, items := range lists {
		for _, variant := range []c11Variant{c11Plain, c11Expensive, c11Batch, c11BatchPtr, c11FallbackOff, c11FallbackOn} {
			if variant != c11Plain && li%2 == 1 {
				continue // the expensive and batch implementations on every second list
			}
			if variant >= c11BatchPtr && li != 2 && li != 4 {
				continue // the pointer-map and batch-with-fallback implementations on two lists (one with ties)
			}
			schema := c11Schema(items, variant)
			for _, sortBy := range []string{"", "rank", "name"} {
				for _, order := range []string{"asc", "desc"} {
					if sortBy == "" && order == "desc" {
						continue
					}
					hasCode := variant == c11Plain || variant == c11Expensive
					type c11Filter struct{ text, fields string }
					filters := []c11Filter{{"", ""}, {"a", ""}, {"zz", ""}}
					if hasCode {
						// the text filter restricted to some of the registered fields
						filters = append(filters, c11Filter{"k", ""}, c11Filter{"k", "name"}, c11Filter{"a", "code"}, c11Filter{"a", "name"}, c11Filter{"1", "code"})
					}
					for _, f := range filters {
						filter := f.text
						distinct++
						want := c11Oracle(items, filter, f.fields, hasCode, sortBy, order)
						common := ""
						if sortBy != "" {
							common += fmt.Sprintf(`, sortBy: "%s", sortOrder: %s`, sortBy, order)
						}
						if filter != "" {
							common += fmt.Sprintf(`, filterText: "%s"`, filter)
							if f.fields != "" {
								common += fmt.Sprintf(`, filterTextFields: ["%s"]`, f.fields)
							}
						}
						// windows between two cursors: after = cursor of element i (or none), before = cursor of element j (or none)
						if all, _, err := c11Fetch(schema, `first: 100`+common); err == nil && len(all.Items.Edges) == len(want) && len(want) > 0 && len(want) <= 5 {
							cur := map[int]string{}
							for k, e := range all.Items.Edges {
								cur[k] = e.Cursor
							}
							for i := -1; i < len(want); i++ {
								for j := i + 1; j <= len(want); j++ {
									// no page size at all: the whole window between the two cursors
									{
										var parts []string
										if i >= 0 {
											parts = append(parts, fmt.Sprintf(`after: "%s"`, cur[i]))
										}
										if j < len(want) {
											parts = append(parts, fmt.Sprintf(`before: "%s"`, cur[j]))
										}
										args := strings.Join(parts, ", ")
										if args == "" {
											args = strings.TrimPrefix(common, ", ")
										} else {
											args += common
										}
										if args != "" {
											evals++
											p, query, err := c11Fetch(schema, args)
											if err != nil {
												fail(query, "error: "+err.Error())
											} else {
												window := want[i+1 : j]
												var got []int64
												for _, e := range p.Items.Edges {
													got = append(got, e.Node.Id)
												}
												if fmt.Sprint(got) != fmt.Sprint(append([]int64{}, window...)) && !(len(got) == 0 && len(window) == 0) {
													fail(query, fmt.Sprintf("without a page size the page is %v, the window between the cursors is %v", got, window))
												}
												// nothing is cut short by a page size: only "elements exist beyond the element named by before / after"
												if wantNext := j < len(want)-1; p.Items.PageInfo.HasNextPage != wantNext {
													fail(query, fmt.Sprintf("hasNextPage %v, the property demands %v (elements exist beyond `before`: %v)", p.Items.PageInfo.HasNextPage, wantNext, wantNext))
												}
												if wantPrev := i > 0; p.Items.PageInfo.HasPrevPage != wantPrev {
													fail(query, fmt.Sprintf("hasPrevPage %v, the property demands %v", p.Items.PageInfo.HasPrevPage, wantPrev))
												}
											}
										}
									}
									for _, size := range []int{1, 2, 10} {
										for _, dir := range []string{"first", "last"} {
											args := fmt.Sprintf("%s: %d", dir, size)
											if i >= 0 {
												args += fmt.Sprintf(`, after: "%s"`, cur[i])
											}
											if j < len(want) {
												args += fmt.Sprintf(`, before: "%s"`, cur[j])
											}
											evals++
											p, query, err := c11Fetch(schema, args+common)
											if err != nil {
												fail(query, "error: "+err.Error())
												continue
											}
											window := want[i+1 : j]
											page := window
											if dir == "first" && len(window) > size {
												page = window[:size]
											}
											if dir == "last" && len(window) > size {
												page = window[len(window)-size:]
											}
											var got []int64
											for _, e := range p.Items.Edges {
												got = append(got, e.Node.Id)
											}
											if fmt.Sprint(got) != fmt.Sprint(append([]int64{}, page...)) && !(len(got) == 0 && len(page) == 0) {
												fail(query, fmt.Sprintf("page %v, the property demands %v", got, page))
											}
											wantNext := (dir == "first" && len(window) > size) || (j < len(want)-1 && j < len(want))
											if j == len(want) {
												wantNext = dir == "first" && len(window) > size
											}
											wantPrev := (dir == "last" && len(window) > size) || i > 0
											if i <= 0 {
												wantPrev = dir == "last" && len(window) > size
											}
											if p.Items.PageInfo.HasNextPage != wantNext {
												fail(query, fmt.Sprintf("hasNextPage %v, the property demands %v (window %v of %v)", p.Items.PageInfo.HasNextPage, wantNext, window, want))
											}
											if p.Items.PageInfo.HasPrevPage != wantPrev {
												fail(query, fmt.Sprintf("hasPrevPage %v, the property demands %v (window %v of %v)", p.Items.PageInfo.HasPrevPage, wantPrev, window, want))
											}
										}
									}
								}
							}
						}
						for size := 1; size <= len(want)+1 && size <= 4; size++ {
							// forward
							var got []int64
							after := ""
							for page := 0; page <= len(want)+1; page++ {
								evals++
								p, query, err := c11Fetch(schema, fmt.Sprintf(`first: %d, after: "%s"%s`, size, after, common))
								if err != nil {
									fail(query, "error: "+err.Error())
									break
								}
								if p.Items.TotalCount != int64(len(want)) {
									fail(query, fmt.Sprintf("totalCount %d, the filtered count is %d", p.Items.TotalCount, len(want)))
								}
								for _, e := range p.Items.Edges {
									got = append(got, e.Node.Id)
								}
								if n := len(p.Items.Edges); n > 0 {
									if p.Items.PageInfo.StartCursor != p.Items.Edges[0].Cursor || p.Items.PageInfo.EndCursor != p.Items.Edges[n-1].Cursor {
										fail(query, "start / end cursor are not those of the first and last edge")
									}
								}
								cut := len(got) < len(want)
								if p.Items.PageInfo.HasNextPage != cut {
									fail(query, fmt.Sprintf("hasNextPage %v after %d of %d elements", p.Items.PageInfo.HasNextPage, len(got), len(want)))
								}
								if !p.Items.PageInfo.HasNextPage || len(p.Items.Edges) == 0 {
									break
								}
								after = p.Items.PageInfo.EndCursor
							}
							if fmt.Sprint(got) != fmt.Sprint(want) {
								fail(fmt.Sprintf(`walk first: %d%s on list %d`, size, common, li), fmt.Sprintf("visited %v, the property demands %v", got, want))
							}
							// backward
							got = nil
							before := ""
							for page := 0; page <= len(want)+1; page++ {
								evals++
								arg := fmt.Sprintf(`last: %d%s`, size, common)
								if before != "" {
									arg = fmt.Sprintf(`last: %d, before: "%s"%s`, size, before, common)
								}
								p, query, err := c11Fetch(schema, arg)
								if err != nil {
									fail(query, "error: "+err.Error())
									break
								}
								var ids []int64
								for _, e := range p.Items.Edges {
									ids = append(ids, e.Node.Id)
								}
								got = append(ids, got...)
								cut := len(got) < len(want)
								if p.Items.PageInfo.HasPrevPage != cut {
									fail(query, fmt.Sprintf("hasPrevPage %v with %d of %d elements visited from the end", p.Items.PageInfo.HasPrevPage, len(got), len(want)))
								}
								if !p.Items.PageInfo.HasPrevPage || len(p.Items.Edges) == 0 {
									break
								}
								before = p.Items.PageInfo.StartCursor
							}
							if fmt.Sprint(got) != fmt.Sprint(want) {
								fail(fmt.Sprintf(`walk last: %d%s on list %d`, size, common, li), fmt.Sprintf("visited %v, the property demands %v", got, want))
							}
						}
					}
				}
			}
		}
	}
	fmt.Printf("VERIF-SAMPLE: items(first: 2, after: C, sortBy: \"rank\", sortOrder: desc, filterText: \"a\") on a 7-element list with ties\n")
	fmt.Printf("VERIF-BOUNDED: evaluations=%d distinct=%d failures=%d\n", evals, distinct, failures)
}
