package schemabuilder

// Bounded stand-in for C18 at the edges of the numeric argument types ("equal to the value sent"): for every integer width,
// signed and unsigned, and for float32, the extreme values of the type arrive exactly, by literal and by variable; a number
// the type cannot hold (beyond its range, negative for an unsigned type, with a fractional part for an integer type) never
// arrives as some other value - it is rejected before the resolver runs (defect s31: 300 arrived as int8(44), -1 as
// uint32(4294967295), 1.5 as 1). Labelled bounded.

import (
	"encoding/json"
	"fmt"
	"reflect"
	"testing"
)

func TestVerifBounded_C18_Ranges(t *testing.T) {
	var got interface{}
	ran := 0
	sb := NewSchema()
	q := sb.Query()
	q.FieldFunc("i8", func(args struct{ X int8 }) bool { ran++; got = args.X; return true })
	q.FieldFunc("u8", func(args struct{ X uint8 }) bool { ran++; got = args.X; return true })
	q.FieldFunc("i16", func(args struct{ X int16 }) bool { ran++; got = args.X; return true })
	q.FieldFunc("u16", func(args struct{ X uint16 }) bool { ran++; got = args.X; return true })
	q.FieldFunc("i32", func(args struct{ X int32 }) bool { ran++; got = args.X; return true })
	q.FieldFunc("u32", func(args struct{ X uint32 }) bool { ran++; got = args.X; return true })
	q.FieldFunc("i64", func(args struct{ X int64 }) bool { ran++; got = args.X; return true })
	q.FieldFunc("u64", func(args struct{ X uint64 }) bool { ran++; got = args.X; return true })
	q.FieldFunc("i", func(args struct{ X int }) bool { ran++; got = args.X; return true })
	q.FieldFunc("u", func(args struct{ X uint }) bool { ran++; got = args.X; return true })
	q.FieldFunc("f32", func(args struct{ X float32 }) bool { ran++; got = args.X; return true })
	q.FieldFunc("pi8", func(args struct{ X *int8 }) bool { ran++; got = *args.X; return true })
	q.FieldFunc("li8", func(args struct{ X []int8 }) bool { ran++; got = args.X[0]; return true })
	sb.Mutation().FieldFunc("noop", func() bool { return true })
	schema := sb.MustBuild()
	evals, distinct, failures := 0, 0, 0
	fail := func(query, vars, detail string) {
		failures++
		if failures <= 3 {
			b, _ := json.Marshal(map[string]interface{}{"query": query, "variables": vars, "detail": detail})
			fmt.Printf("VERIF-FAIL-INPUT: %s\n", b)
			t.Errorf("%s %s: %s", query, vars, detail)
		} else {
			t.Fail()
		}
	}
	type accept struct {
		field, literal string
		want           interface{}
	}
	accepts := []accept{
		{"i8", "-128", int8(-128)}, {"i8", "127", int8(127)}, {"u8", "0", uint8(0)}, {"u8", "255", uint8(255)},
		{"i16", "-32768", int16(-32768)}, {"i16", "32767", int16(32767)}, {"u16", "65535", uint16(65535)},
		{"i32", "-2147483648", int32(-2147483648)}, {"i32", "2147483647", int32(2147483647)}, {"u32", "4294967295", uint32(4294967295)},
		{"i64", "-9007199254740991", int64(-9007199254740991)}, {"i64", "9007199254740991", int64(9007199254740991)}, {"u64", "9007199254740991", uint64(9007199254740991)},
		{"i", "-5", int(-5)}, {"u", "5", uint(5)}, {"i64", "2.0", int64(2)}, {"f32", "1.5", float32(1.5)}, {"f32", "-3.0e38", float32(-3.0e38)},
		{"pi8", "-128", int8(-128)}, {"li8", "[127]", int8(127)},
	}
	rejects := [][2]string{
		{"i8", "128"}, {"i8", "-129"}, {"i8", "300"}, {"u8", "256"}, {"u8", "-1"}, {"i16", "32768"}, {"i16", "-32769"}, {"u16", "65536"}, {"u16", "-1"},
		{"i32", "2147483648"}, {"i32", "-2147483649"}, {"u32", "4294967296"}, {"u32", "-1"}, {"i64", "1e30"}, {"i64", "-1e30"}, {"u64", "-1"}, {"u64", "1e30"},
		{"i", "1e30"}, {"u", "-1"}, {"i8", "1.5"}, {"u8", "0.5"}, {"i64", "1.5"}, {"u64", "2.25"}, {"i32", "-0.5"}, {"f32", "1e39"}, {"f32", "-1e39"},
		{"pi8", "128"}, {"li8", "[1, 128]"}, {"li8", "[1.5]"},
	}
	run := func(query, vars string) error {
		got, ran = nil, 0
		err, _ := c18Run(schema, query, vars)
		return err
	}
	for _, a := range accepts {
		distinct++
		for _, tr := range []struct{ query, vars, what string }{
			{fmt.Sprintf("{ %s(x: %s) }", a.field, a.literal), "", "literal"},
			{fmt.Sprintf("query($v: T!) { %s(x: $v) }", a.field), `{"v": ` + a.literal + `}`, "variable"},
		} {
			evals++
			if err := run(tr.query, tr.vars); err != nil {
				fail(tr.query, tr.vars, tr.what+": a value the type holds is rejected: "+err.Error())
			} else if ran != 1 || !reflect.DeepEqual(got, a.want) {
				fail(tr.query, tr.vars, fmt.Sprintf("%s: resolver received %#v, sent %#v", tr.what, got, a.want))
			}
		}
	}
	for _, r := range rejects {
		distinct++
		for _, tr := range []struct{ query, vars, what string }{
			{fmt.Sprintf("{ %s(x: %s) }", r[0], r[1]), "", "literal"},
			{fmt.Sprintf("query($v: T!) { %s(x: $v) }", r[0]), `{"v": ` + r[1] + `}`, "variable"},
		} {
			evals++
			err := run(tr.query, tr.vars)
			if err == nil {
				fail(tr.query, tr.vars, fmt.Sprintf("%s: %s is not a value of the argument's type, yet the resolver received %#v", tr.what, r[1], got))
			} else if ran != 0 {
				fail(tr.query, tr.vars, tr.what+": rejected, but the resolver ran")
			}
		}
	}
	fmt.Printf("VERIF-SAMPLE: { u32(x: -1) } and query($v: T!) { i8(x: $v) } with {\"v\": 300}\n")
	fmt.Printf("VERIF-BOUNDED: evaluations=%d distinct=%d failures=%d\n", evals, distinct, failures)
}
