package schemabuilder

// Bounded stand-in for the part of C15 the contracts do not reach (the reflection-built argument parsers, which run inside
// PrepareQuery, outside every recover): for every field of a schema covering the argument shapes schemabuilder supports
// (scalars of several widths, optional pointers, bytes, time, enum, lists, nested lists, input objects, paginated fields with
// and without an argument struct, with embedded PaginationArgs) and every argument name (declared, connection argument,
// undeclared) a family of hostile values - wrong kinds, nulls, nested lists and objects, out-of-range numbers - is supplied
// as a literal and through a variable. Parse + PrepareQuery (+ Execute when accepted) must return, never panic.

import (
	"context"
	"encoding/json"
	"fmt"
	"testing"
	"time"

	"github.com/samsarahq/thunder/graphql"
)

type c15Enum int32

type C15Item struct {
	Id int64
}

type c15Inner struct {
	A int64
	B *string
	L []int32
	N *c15Inner2
}

type c15Inner2 struct {
	Z []string
}

func c15ArgsSchema() *graphql.Schema {
	sb := NewSchema()
	sb.Enum(c15Enum(0), map[string]c15Enum{"one": 1, "two": 2})
	q := sb.Query()
	sb.Object("C15Item", C15Item{}).Key("id")
	items := func() []*C15Item { return []*C15Item{{1}, {2}, {3}} }
	q.FieldFunc("i64", func(args struct {
		X int64
		O *int64
	}) bool {
		return true
	})
	q.FieldFunc("small", func(args struct {
		X int8
		O *uint16
	}) bool {
		return true
	})
	q.FieldFunc("flt", func(args struct {
		X float64
		O *float32
	}) bool {
		return true
	})
	q.FieldFunc("str", func(args struct {
		X string
		O *bool
	}) bool {
		return true
	})
	q.FieldFunc("raw", func(args struct {
		X []byte
		O *time.Time
	}) bool {
		return true
	})
	q.FieldFunc("enm", func(args struct {
		X c15Enum
		O *c15Enum
	}) bool {
		return true
	})
	q.FieldFunc("lst", func(args struct {
		X []int64
		O *[]string
	}) bool {
		return true
	})
	q.FieldFunc("nest", func(args struct {
		X [][]string
		O []*c15Inner
	}) bool {
		return true
	})
	q.FieldFunc("obj", func(args struct {
		X c15Inner
		O *c15Inner
	}) bool {
		return true
	})
	q.FieldFunc("noargs", func() bool { return true })
	q.FieldFunc("pagNoArgs", func() []*C15Item { return items() }, Paginated)
	q.FieldFunc("pagArgs", func(args struct {
		X int64
		O *string
	}) []*C15Item {
		return items()
	}, Paginated)
	q.FieldFunc("pagEmbedded", func(args struct {
		PaginationArgs
		X *int64
	}) ([]*C15Item, PaginationInfo, PostProcessOptions, error) {
		return items(), PaginationInfo{TotalCountFunc: func() int64 { return 3 }}, PostProcessOptions{}, nil
	}, Paginated)
	sb.Mutation().FieldFunc("noop", func() bool { return true })
	return sb.MustBuild()
}

func TestVerifBounded_C15_Arguments(t *testing.T) {
	schema := c15ArgsSchema()
	type field struct {
		name, sub string
	}
	fields := []field{{"i64", ""}, {"small", ""}, {"flt", ""}, {"str", ""}, {"raw", ""}, {"enm", ""}, {"lst", ""}, {"nest", ""}, {"obj", ""}, {"noargs", ""},
		{"pagNoArgs", " { totalCount edges { node { id } } }"}, {"pagArgs", " { totalCount }"}, {"pagEmbedded", " { totalCount pageInfo { hasNextPage } }"}}
	argNames := []string{"x", "o", "bogus", "first", "after", "last", "before", "filterText", "sortBy", "sortOrder", "args", "X"}
	// hostile values: literal text and the JSON of the same value for a variable ("" = not expressible that way)
	values := []struct{ literal, jsonVar string }{
		{"null", "null"}, {"true", "true"}, {"0", "0"}, {"-1", "-1"}, {"1.5", "1.5"}, {"1e400", ""}, {"99999999999999999999", "99999999999999999999"},
		{"-99999999999999999999", "-99999999999999999999"}, {`""`, `""`}, {`"s"`, `"s"`}, {`"2017-07-14T02:40:00Z"`, `"2017-07-14T02:40:00Z"`}, {`"!!!not-base64"`, `"!!!not-base64"`},
		{"one", `"one"`}, {"three", `"three"`}, {"[]", "[]"}, {"[null]", "[null]"}, {"[1, \"a\", true]", `[1, "a", true]`}, {"[[1]]", "[[1]]"}, {"[[[]]]", "[[[]]]"},
		{"{}", "{}"}, {"{a: 1}", `{"a": 1}`}, {"{a: null, b: [1], l: {x: 1}}", `{"a": null, "b": [1], "l": {"x": 1}}`}, {"{a: 1, n: {z: [1, null]}}", `{"a": 1, "n": {"z": [1, null]}}`},
		{"{bogus: {deep: [{}]}}", `{"bogus": {"deep": [{}]}}`}, {"[{a: 1}, null, 3]", `[{"a": 1}, null, 3]`}, {"300", "300"}, {"-129", "-129"}, {"65536", "65536"}, {"3.0", "3.0"},
	}
	evals, distinct, failures := 0, 0, 0
	try := func(what, query string, vars map[string]interface{}) {
		evals++
		var panicked interface{}
		func() {
			defer func() { panicked = recover() }()
			q, err := graphql.Parse(query, vars)
			if err != nil {
				return
			}
			if err := graphql.PrepareQuery(context.Background(), schema.Query, q.SelectionSet); err != nil {
				return
			}
			graphql.NewExecutor(graphql.NewImmediateGoroutineScheduler()).Execute(context.Background(), schema.Query, nil, q)
		}()
		if panicked != nil {
			failures++
			if failures <= 3 {
				b, _ := json.Marshal(map[string]interface{}{"query": query, "variables": vars, "panic": fmt.Sprint(panicked)})
				fmt.Printf("VERIF-FAIL-INPUT: %s\n", b)
				t.Errorf("%s: panic %v", what, panicked)
			} else {
				t.Fail()
			}
		}
	}
	for _, f := range fields {
		for _, a := range argNames {
			for _, v := range values {
				distinct++
				try("literal", fmt.Sprintf("{ %s(%s: %s)%s }", f.name, a, v.literal, f.sub), map[string]interface{}{})
				if v.jsonVar != "" {
					var decoded interface{}
					if err := json.Unmarshal([]byte(v.jsonVar), &decoded); err != nil {
						t.Fatal(err)
					}
					try("variable", fmt.Sprintf("query Q($v: Whatever) { %s(%s: $v)%s }", f.name, a, f.sub), map[string]interface{}{"v": decoded})
				}
			}
		}
		// two arguments at once, and the declared one valid beside a hostile neighbour
		for _, v := range values {
			distinct++
			try("pair", fmt.Sprintf("{ %s(x: %s, o: %s)%s }", f.name, v.literal, v.literal, f.sub), map[string]interface{}{})
			try("pair", fmt.Sprintf("{ %s(first: %s, bogus: %s)%s }", f.name, v.literal, v.literal, f.sub), map[string]interface{}{})
		}
	}
	fmt.Printf("VERIF-SAMPLE: { pagNoArgs(bogus: {a: 1}) { totalCount } }\n")
	fmt.Printf("VERIF-BOUNDED: evaluations=%d distinct=%d failures=%d\n", evals, distinct, failures)
}
