package schemabuilder

import (
	"fmt"
	"testing"
)

// Property-level oracle for the cursor window (C11), written from the property statement:
// the page window starts after the element named by `after` and ends before the element named by
// `before`; "elements exist beyond the element named by before" / "before the element named by after"
// refer to the list the caller passed in.
func verifC11Window(cursors []string, before, after *string) (lo, hi int, elemsAfter, elemsBefore bool) {
	lo, hi = 0, len(cursors)
	if after != nil {
		for i, c := range cursors {
			if c == *after {
				lo = i + 1
				elemsBefore = i > 0
				break
			}
		}
	}
	if before != nil {
		for i := lo; i < len(cursors); i++ {
			if cursors[i] == *before {
				hi = i
				elemsAfter = i < len(cursors)-1
				break
			}
		}
	}
	return
}

func verifC11Check(cursors []string, before, after *string) (bool, string) {
	edges := make([]Edge, len(cursors))
	for i, c := range cursors {
		edges[i] = Edge{Node: i, Cursor: c}
	}
	lo, hi, wantAfter, wantBefore := verifC11Window(cursors, before, after)
	got, gotAfter, gotBefore := applyCursorsToAllEdges(edges, before, after)
	if len(got) != hi-lo {
		return true, fmt.Sprintf("window has %d edges, property demands [%d,%d)", len(got), lo, hi)
	}
	for k := range got {
		if got[k].Cursor != cursors[lo+k] {
			return true, fmt.Sprintf("window[%d]=%s, property demands %s", k, got[k].Cursor, cursors[lo+k])
		}
	}
	if gotAfter != wantAfter {
		return true, fmt.Sprintf("elemsAfter=%v, property demands %v", gotAfter, wantAfter)
	}
	if gotBefore != wantBefore {
		return true, fmt.Sprintf("elemsBefore=%v, property demands %v", gotBefore, wantBefore)
	}
	return false, "agrees"
}

func verifStrPtr(v interface{}) *string {
	m, ok := v.(map[string]interface{})
	if !ok {
		return nil
	}
	s, _ := m["$elem"].(string)
	return &s
}

func verifShow(cursors []string, before, after *string) string {
	show := func(p *string) interface{} {
		if p == nil {
			return nil
		}
		return *p
	}
	return verifJSON(map[string]interface{}{"cursors": cursors, "before": show(before), "after": show(after)})
}

func TestVerifReplay_applyCursorsToAllEdges(t *testing.T) {
	in := verifLoadInput(t)
	params, _ := in["params"].(map[string]interface{})
	var cursors []string
	list, _ := params["edges"].([]interface{})
	for _, e := range list {
		m, _ := e.(map[string]interface{})
		c, _ := m["Cursor"].(string)
		cursors = append(cursors, c)
	}
	before, after := verifStrPtr(params["before"]), verifStrPtr(params["after"])
	bad, detail := verifC11Check(cursors, before, after)
	if bad {
		fmt.Printf("VERIF-REPLAY: CONFIRMED input=%s %s\n", verifShow(cursors, before, after), detail)
	} else {
		fmt.Printf("VERIF-REPLAY: NOT-CONFIRMED input=%s %s\n", verifShow(cursors, before, after), detail)
	}
}

// Small scope: every list of up to 4 distinct cursors, before/after over {nil, each cursor, an absent cursor}.
func TestVerifSearch_applyCursorsToAllEdges(t *testing.T) {
	all := []string{"a", "b", "c", "d"}
	evals, distinct, failures := 0, 0, 0
	for n := 0; n <= 4; n++ {
		cursors := all[:n]
		choices := []*string{nil}
		for i := range cursors {
			choices = append(choices, &cursors[i])
		}
		absent := "zz"
		choices = append(choices, &absent)
		for _, after := range choices {
			for _, before := range choices {
				evals++
				if n > 0 && (after != nil || before != nil) {
					distinct++
				}
				if bad, detail := verifC11Check(cursors, before, after); bad {
					failures++
					if failures == 1 {
						fmt.Printf("VERIF-FAIL-INPUT: %s\n", verifJSON(map[string]interface{}{"input": verifShow(cursors, before, after), "detail": detail}))
					}
				}
			}
		}
	}
	fmt.Printf("VERIF-SAMPLE: cursors=[a b c] after=a before=c\n")
	fmt.Printf("VERIF-BOUNDED: evaluations=%d distinct=%d failures=%d\n", evals, distinct, failures)
}

// Property-level oracle for one page (C11): window by cursors, then cut by first / last;
// hasNextPage <=> cut short by first || elements beyond `before`; hasPrevPage <=> cut short by last || elements before `after`.
func verifC11Page(cursors []string, before, after *string, first, last *int64) (page []string, next, prev bool) {
	lo, hi, elemsAfter, elemsBefore := verifC11Window(cursors, before, after)
	w := cursors[lo:hi]
	next = before != nil && elemsAfter
	prev = after != nil && elemsBefore
	if first != nil && int64(len(w)) > *first {
		w = w[:*first]
		next = true
	}
	if last != nil && int64(len(w)) > *last {
		w = w[int64(len(w))-*last:]
		prev = true
	}
	return w, next, prev
}

func TestVerifSearch_paginateManually(t *testing.T) {
	all := []string{"a", "b", "c", "d"}
	evals, distinct, failures := 0, 0, 0
	i64 := func(v int64) *int64 { return &v }
	for n := 0; n <= 4; n++ {
		cursors := all[:n]
		choices := []*string{nil}
		for i := range cursors {
			choices = append(choices, &cursors[i])
		}
		absent := "zz"
		choices = append(choices, &absent)
		limits := [][2]*int64{{nil, nil}}
		for _, v := range []int64{0, 1, 2, 3, 5} {
			limits = append(limits, [2]*int64{i64(v), nil}, [2]*int64{nil, i64(v)})
		}
		for _, after := range choices {
			for _, before := range choices {
				for _, fl := range limits {
					evals++
					if n > 1 {
						distinct++
					}
					edges := make([]Edge, len(cursors))
					for i, c := range cursors {
						edges[i] = Edge{Node: i, Cursor: c}
					}
					c := &Connection{Edges: edges}
					err := c.paginateManually(PaginationArgs{First: fl[0], Last: fl[1], After: after, Before: before})
					want, wantNext, wantPrev := verifC11Page(cursors, before, after, fl[0], fl[1])
					bad := ""
					if err != nil {
						bad = "unexpected error: " + err.Error()
					} else if len(c.Edges) != len(want) {
						bad = fmt.Sprintf("page has %d edges, want %v", len(c.Edges), want)
					} else {
						for k := range want {
							if c.Edges[k].Cursor != want[k] {
								bad = fmt.Sprintf("page[%d]=%s, want %v", k, c.Edges[k].Cursor, want)
							}
						}
						if bad == "" && (c.PageInfo.HasNextPage != wantNext || c.PageInfo.HasPrevPage != wantPrev) {
							bad = fmt.Sprintf("hasNextPage=%v hasPrevPage=%v, property demands %v %v", c.PageInfo.HasNextPage, c.PageInfo.HasPrevPage, wantNext, wantPrev)
						}
					}
					if bad != "" {
						failures++
						if failures == 1 {
							show := func(p *int64) interface{} {
								if p == nil {
									return nil
								}
								return *p
							}
							fmt.Printf("VERIF-FAIL-INPUT: %s\n", verifJSON(map[string]interface{}{"input": verifShow(cursors, before, after), "first": show(fl[0]), "last": show(fl[1]), "detail": bad}))
						}
					}
				}
			}
		}
	}
	fmt.Printf("VERIF-SAMPLE: cursors=[a b c d] after=a before=d first=2\n")
	fmt.Printf("VERIF-BOUNDED: evaluations=%d distinct=%d failures=%d\n", evals, distinct, failures)
}
