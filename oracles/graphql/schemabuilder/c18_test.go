package schemabuilder

// Bounded stand-in for the part of C18 the contracts do not reach (the reflection-driven argument parsers): for every
// argument type of the family below and every test value, the value written as a literal, supplied through a variable, and
// supplied through a variable's default must arrive in the resolver as the same Go value, equal to the value sent; an
// explicit null or an absent variable uses the default; a missing required argument or a value of the wrong kind is a
// client error and the resolver does not run; an optional argument left out arrives as nil. Labelled bounded.

import (
	"context"
	"encoding/base64"
	"encoding/json"
	"fmt"
	"reflect"
	"testing"
	"time"

	"github.com/samsarahq/thunder/graphql"
)

type c18Enum int32

type c18MyInt int64
type c18MyStr string
type c18MyBool bool
type c18MyFloat float64

// a type that reads itself from text
type c18Point struct{ X, Y int64 }

func (p *c18Point) UnmarshalText(b []byte) error {
	_, err := fmt.Sscanf(string(b), "%d,%d", &p.X, &p.Y)
	return err
}

type c18Outer struct {
	Name  string
	Inner c18Inner
	Many  []c18Inner
	Opt   *c18Inner
}

type c18Inner struct {
	A int64
	B *string
	L []int32
}

// one field per argument type: required X, optional O
type c18Case struct {
	field    string
	register func(obj *Object, sink *interface{}, ran *int)
	// values: literal text, JSON text of the same value for a variable, the Go value the resolver must see in X
	values []c18Value
	// a literal of the wrong kind for this type
	wrongKind string
}

type c18Value struct {
	literal string
	jsonVar string
	want    interface{}
}

func c18Cases() []c18Case {
	str := func(s string) *string { return &s }
	_ = str
	t1 := time.Date(2017, 7, 14, 2, 40, 0, 0, time.UTC)
	return []c18Case{
		{"i64", func(o *Object, sink *interface{}, ran *int) {
			o.FieldFunc("i64", func(args struct {
				X int64
				O *int64
			}) bool {
				*ran++
				*sink = args
				return true
			})
		}, []c18Value{{"0", "0", int64(0)}, {"-5", "-5", int64(-5)}, {"9007199254740991", "9007199254740991", int64(9007199254740991)}}, `"1"`},
		{"i32", func(o *Object, sink *interface{}, ran *int) {
			o.FieldFunc("i32", func(args struct {
				X int32
				O *int32
			}) bool {
				*ran++
				*sink = args
				return true
			})
		}, []c18Value{{"7", "7", int32(7)}, {"-2147483648", "-2147483648", int32(-2147483648)}}, `true`},
		{"i8", func(o *Object, sink *interface{}, ran *int) {
			o.FieldFunc("i8", func(args struct {
				X int8
				O *int8
			}) bool {
				*ran++
				*sink = args
				return true
			})
		}, []c18Value{{"-128", "-128", int8(-128)}, {"127", "127", int8(127)}}, `"x"`},
		{"u32", func(o *Object, sink *interface{}, ran *int) {
			o.FieldFunc("u32", func(args struct {
				X uint32
				O *uint32
			}) bool {
				*ran++
				*sink = args
				return true
			})
		}, []c18Value{{"0", "0", uint32(0)}, {"4294967295", "4294967295", uint32(4294967295)}}, `[1]`},
		{"f64", func(o *Object, sink *interface{}, ran *int) {
			o.FieldFunc("f64", func(args struct {
				X float64
				O *float64
			}) bool {
				*ran++
				*sink = args
				return true
			})
		}, []c18Value{{"0.1", "0.1", float64(0.1)}, {"37.774929", "37.774929", float64(37.774929)}, {"-2.5e10", "-2.5e10", float64(-2.5e10)}, {"3", "3", float64(3)}}, `"1.5"`},
		{"f32", func(o *Object, sink *interface{}, ran *int) {
			o.FieldFunc("f32", func(args struct {
				X float32
				O *float32
			}) bool {
				*ran++
				*sink = args
				return true
			})
		}, []c18Value{{"1.5", "1.5", float32(1.5)}, {"0.1", "0.1", float32(0.1)}}, `false`},
		{"b", func(o *Object, sink *interface{}, ran *int) {
			o.FieldFunc("b", func(args struct {
				X bool
				O *bool
			}) bool {
				*ran++
				*sink = args
				return true
			})
		}, []c18Value{{"true", "true", true}, {"false", "false", false}}, `1`},
		{"s", func(o *Object, sink *interface{}, ran *int) {
			o.FieldFunc("s", func(args struct {
				X string
				O *string
			}) bool {
				*ran++
				*sink = args
				return true
			})
		}, []c18Value{{`""`, `""`, ""}, {`"héllo \"q\""`, `"héllo \"q\""`, `héllo "q"`}, {`"123"`, `"123"`, "123"}}, `5`},
		{"bytes", func(o *Object, sink *interface{}, ran *int) {
			o.FieldFunc("bytes", func(args struct {
				X []byte
				O *[]byte
			}) bool {
				*ran++
				*sink = args
				return true
			})
		}, []c18Value{{`"` + base64.StdEncoding.EncodeToString([]byte{0, 255, 'a'}) + `"`, `"` + base64.StdEncoding.EncodeToString([]byte{0, 255, 'a'}) + `"`, []byte{0, 255, 'a'}}}, `3`},
		{"t", func(o *Object, sink *interface{}, ran *int) {
			o.FieldFunc("t", func(args struct {
				X time.Time
				O *time.Time
			}) bool {
				*ran++
				*sink = args
				return true
			})
		}, []c18Value{{`"2017-07-14T02:40:00Z"`, `"2017-07-14T02:40:00Z"`, t1}}, `12`},
		{"e", func(o *Object, sink *interface{}, ran *int) {
			o.FieldFunc("e", func(args struct {
				X c18Enum
				O *c18Enum
			}) bool {
				*ran++
				*sink = args
				return true
			})
		}, []c18Value{{"ONE", `"ONE"`, c18Enum(1)}, {"ZERO", `"ZERO"`, c18Enum(0)}}, `"NOPE"`},
		{"l", func(o *Object, sink *interface{}, ran *int) {
			o.FieldFunc("l", func(args struct {
				X []int64
				O *[]int64
			}) bool {
				*ran++
				*sink = args
				return true
			})
		}, []c18Value{{"[]", "[]", []int64{}}, {"[1, -2, 3]", "[1,-2,3]", []int64{1, -2, 3}}}, `7`},
		{"ll", func(o *Object, sink *interface{}, ran *int) {
			o.FieldFunc("ll", func(args struct {
				X [][]string
				O *[][]string
			}) bool {
				*ran++
				*sink = args
				return true
			})
		}, []c18Value{{`[["a"], [], ["b", "c"]]`, `[["a"],[],["b","c"]]`, [][]string{{"a"}, {}, {"b", "c"}}}}, `["a"]`},
		{"in", func(o *Object, sink *interface{}, ran *int) {
			o.FieldFunc("in", func(args struct {
				X c18Inner
				O *c18Inner
			}) bool {
				*ran++
				*sink = args
				return true
			})
		}, []c18Value{{`{a: 4, l: [1, 2]}`, `{"a":4,"l":[1,2]}`, c18Inner{A: 4, L: []int32{1, 2}}}, {`{a: 0, b: "x", l: []}`, `{"a":0,"b":"x","l":[]}`, c18Inner{A: 0, B: str("x"), L: []int32{}}}}, `[1]`},
		{"myint", func(o *Object, sink *interface{}, ran *int) {
			o.FieldFunc("myint", func(args struct {
				X c18MyInt
				O *c18MyInt
			}) bool {
				*ran++
				*sink = args
				return true
			})
		}, []c18Value{{"5", "5", c18MyInt(5)}, {"-9007199254740991", "-9007199254740991", c18MyInt(-9007199254740991)}}, `"5"`},
		{"mystr", func(o *Object, sink *interface{}, ran *int) {
			o.FieldFunc("mystr", func(args struct {
				X c18MyStr
				O *c18MyStr
			}) bool {
				*ran++
				*sink = args
				return true
			})
		}, []c18Value{{`""`, `""`, c18MyStr("")}, {`"zoë"`, `"zoë"`, c18MyStr("zoë")}}, `5`},
		{"mybool", func(o *Object, sink *interface{}, ran *int) {
			o.FieldFunc("mybool", func(args struct {
				X c18MyBool
				O *c18MyBool
			}) bool {
				*ran++
				*sink = args
				return true
			})
		}, []c18Value{{"true", "true", c18MyBool(true)}, {"false", "false", c18MyBool(false)}}, `"true"`},
		{"myfloat", func(o *Object, sink *interface{}, ran *int) {
			o.FieldFunc("myfloat", func(args struct {
				X c18MyFloat
				O *c18MyFloat
			}) bool {
				*ran++
				*sink = args
				return true
			})
		}, []c18Value{{"0.1", "0.1", c18MyFloat(0.1)}, {"3", "3", c18MyFloat(3)}}, `"x"`},
		{"u8", func(o *Object, sink *interface{}, ran *int) {
			o.FieldFunc("u8", func(args struct {
				X uint8
				O *uint8
			}) bool {
				*ran++
				*sink = args
				return true
			})
		}, []c18Value{{"0", "0", uint8(0)}, {"255", "255", uint8(255)}}, `"1"`},
		{"i16", func(o *Object, sink *interface{}, ran *int) {
			o.FieldFunc("i16", func(args struct {
				X int16
				O *int16
			}) bool {
				*ran++
				*sink = args
				return true
			})
		}, []c18Value{{"-32768", "-32768", int16(-32768)}, {"32767", "32767", int16(32767)}}, `true`},
		{"u64", func(o *Object, sink *interface{}, ran *int) {
			o.FieldFunc("u64", func(args struct {
				X uint64
				O *uint64
			}) bool {
				*ran++
				*sink = args
				return true
			})
		}, []c18Value{{"0", "0", uint64(0)}, {"9007199254740991", "9007199254740991", uint64(9007199254740991)}}, `"9"`},
		{"pt", func(o *Object, sink *interface{}, ran *int) {
			o.FieldFunc("pt", func(args struct {
				X c18Point
				O *c18Point
			}) bool {
				*ran++
				*sink = args
				return true
			})
		}, []c18Value{{`"1,2"`, `"1,2"`, c18Point{1, 2}}, {`"-7,0"`, `"-7,0"`, c18Point{-7, 0}}}, `12`},
		{"outer", func(o *Object, sink *interface{}, ran *int) {
			o.FieldFunc("outer", func(args struct {
				X c18Outer
				O *c18Outer
			}) bool {
				*ran++
				*sink = args
				return true
			})
		}, []c18Value{
			{`{name: "n", inner: {a: 1, l: []}, many: []}`, `{"name":"n","inner":{"a":1,"l":[]},"many":[]}`, c18Outer{Name: "n", Inner: c18Inner{A: 1, L: []int32{}}, Many: []c18Inner{}}},
			{`{name: "", inner: {a: 2, b: "y", l: [7]}, many: [{a: 3, l: []}, {a: 4, b: "", l: [1]}], opt: {a: 5, l: []}}`, `{"name":"","inner":{"a":2,"b":"y","l":[7]},"many":[{"a":3,"l":[]},{"a":4,"b":"","l":[1]}],"opt":{"a":5,"l":[]}}`,
				c18Outer{Name: "", Inner: c18Inner{A: 2, B: str("y"), L: []int32{7}}, Many: []c18Inner{{A: 3, L: []int32{}}, {A: 4, B: str(""), L: []int32{1}}}, Opt: &c18Inner{A: 5, L: []int32{}}}},
		}, `"outer"`},
	}
}

func c18Run(schema *graphql.Schema, query string, varsJSON string) (err error, clientSide bool) {
	vars := map[string]interface{}{}
	if varsJSON != "" {
		if e := json.Unmarshal([]byte(varsJSON), &vars); e != nil {
			panic(e)
		}
	}
	q, e := graphql.Parse(query, vars)
	if e != nil {
		return e, true
	}
	if e := graphql.PrepareQuery(context.Background(), schema.Query, q.SelectionSet); e != nil {
		return e, true
	}
	_, e = graphql.NewExecutor(graphql.NewImmediateGoroutineScheduler()).Execute(context.Background(), schema.Query, nil, q)
	return e, false
}

func c18X(sink interface{}) interface{} { return reflect.ValueOf(sink).FieldByName("X").Interface() }
func c18ONil(sink interface{}) bool     { return reflect.ValueOf(sink).FieldByName("O").IsNil() }

func c18Same(a, b interface{}) bool {
	if ta, ok := a.(time.Time); ok {
		tb, ok := b.(time.Time)
		return ok && ta.Equal(tb)
	}
	return reflect.DeepEqual(a, b)
}

func TestVerifBounded_C18_Transport(t *testing.T) {
	evals, distinct, failures := 0, 0, 0
	fail := func(query, vars, detail string) {
		failures++
		if failures <= 3 {
			b, _ := json.Marshal(map[string]interface{}{"query": query, "variables": vars, "detail": detail})
			fmt.Printf("VERIF-FAIL-INPUT: %s\n", b)
			t.Errorf("%s %s: %s", query, vars, detail)
		} else {
			t.Fail()
		}
	}
	for _, c := range c18Cases() {
		sb := NewSchema()
		sb.Enum(c18Enum(0), map[string]interface{}{"ZERO": c18Enum(0), "ONE": c18Enum(1)})
		var sink interface{}
		ran := 0
		c.register(sb.Query(), &sink, &ran)
		sb.Mutation().FieldFunc("noop", func() bool { return true })
		schema := sb.MustBuild()
		expect := func(query, vars string, want interface{}, what string) {
			evals++
			sink, ran = nil, 0
			err, _ := c18Run(schema, query, vars)
			if err != nil {
				fail(query, vars, what+": rejected: "+err.Error())
				return
			}
			if ran != 1 {
				fail(query, vars, fmt.Sprintf("%s: resolver ran %d times", what, ran))
				return
			}
			if got := c18X(sink); !c18Same(got, want) {
				fail(query, vars, fmt.Sprintf("%s: resolver received %#v, sent %#v", what, got, want))
			}
			if !c18ONil(sink) {
				fail(query, vars, what+": the optional argument that was left out is not nil")
			}
		}
		reject := func(query, vars, what string) {
			evals++
			sink, ran = nil, 0
			err, clientSide := c18Run(schema, query, vars)
			if err == nil {
				fail(query, vars, what+": accepted")
				return
			}
			if ran != 0 {
				fail(query, vars, what+": the resolver ran")
			}
			if !clientSide {
				// rejected during execution: must still be before the resolver and reported as a client error
				if _, ok := err.(graphql.ClientError); !ok && ran != 0 {
					fail(query, vars, what+": not a client error: "+err.Error())
				}
			}
		}
		for _, v := range c.values {
			distinct++
			f := c.field
			expect(fmt.Sprintf("{ %s(x: %s) }", f, v.literal), "", v.want, "literal")
			expect(fmt.Sprintf("query($v: T!) { %s(x: $v) }", f), `{"v": `+v.jsonVar+`}`, v.want, "variable")
			expect(fmt.Sprintf("query($v: T = %s) { %s(x: $v) }", v.literal, f), "", v.want, "default, variable absent")
			expect(fmt.Sprintf("query($v: T = %s) { %s(x: $v) }", v.literal, f), `{"v": null}`, v.want, "default, variable null")
			other := c.values[(indexOf(c.values, v)+1)%len(c.values)]
			expect(fmt.Sprintf("query($v: T = %s) { %s(x: $v) }", other.literal, f), `{"v": `+v.jsonVar+`}`, v.want, "default overridden by the variable")
			// the same selection inside a named fragment and inside an inline fragment: same value as written directly
			expect(fmt.Sprintf("query($v: T!) { ...F } fragment F on Query { %s(x: $v) }", f), `{"v": `+v.jsonVar+`}`, v.want, "variable, used in a named fragment")
			expect(fmt.Sprintf("query($v: T = %s) { ...F } fragment F on Query { %s(x: $v) }", v.literal, f), "", v.want, "default, variable absent, used in a named fragment")
			expect(fmt.Sprintf("query($v: T = %s) { ...F } fragment F on Query { %s(x: $v) }", v.literal, f), `{"v": null}`, v.want, "default, variable null, used in a named fragment")
			expect(fmt.Sprintf("query($v: T = %s) { ... on Query { %s(x: $v) } }", v.literal, f), "", v.want, "default, variable absent, used in an inline fragment")
			expect(fmt.Sprintf("{ ...F } fragment F on Query { %s(x: %s) }", f, v.literal), "", v.want, "literal in a named fragment")
			// the optional argument supplied as well
			evals++
			sink, ran = nil, 0
			if err, _ := c18Run(schema, fmt.Sprintf("{ %s(x: %s, o: %s) }", f, v.literal, v.literal), ""); err != nil || ran != 1 {
				fail(fmt.Sprintf("{ %s(x: %s, o: %s) }", f, v.literal, v.literal), "", fmt.Sprintf("optional argument supplied: err=%v ran=%d", err, ran))
			} else if o := reflect.ValueOf(sink).FieldByName("O"); o.IsNil() || !c18Same(o.Elem().Interface(), v.want) {
				fail(fmt.Sprintf("{ %s(x: %s, o: %s) }", f, v.literal, v.literal), "", "optional argument supplied: not received as sent")
			}
		}
		reject(fmt.Sprintf("{ %s }", c.field), "", "required argument missing")
		reject(fmt.Sprintf("query($v: T) { %s(x: $v) }", c.field), "", "required argument bound to an absent variable")
		reject(fmt.Sprintf("query($v: T) { %s(x: $v) }", c.field), `{"v": null}`, "required argument bound to a null variable")
		reject(fmt.Sprintf("{ %s(x: %s) }", c.field, c.wrongKind), "", "value of the wrong kind")
		// (an argument the field does not declare is ignored by the parsers; the property says nothing about it)
	}
	fmt.Printf("VERIF-SAMPLE: query($v: T = 0.1) { f64(x: $v) } with {\"v\": null}\n")
	fmt.Printf("VERIF-BOUNDED: evaluations=%d distinct=%d failures=%d\n", evals, distinct, failures)
}

func indexOf(vs []c18Value, v c18Value) int {
	for i := range vs {
		if vs[i].literal == v.literal {
			return i
		}
	}
	return 0
}
