package graphql_test

// Bounded stand-in for the whole-query clause of C01 (a sequential reference evaluator would be a model; instead the same
// logical schema is registered in every execution mode the property names and the real executor must return the same JSON
// in all of them, equal to values computed directly from the data): plain / Expensive / batch / batch-with-fallback (both
// flag values) / NumParallelInvocations = 1, 2, 3, under the immediate and a batching scheduler. Labelled bounded.

import (
	"context"
	"encoding/json"
	"fmt"
	"reflect"
	"testing"

	"github.com/samsarahq/thunder/batch"
	"github.com/samsarahq/thunder/graphql"
	"github.com/samsarahq/thunder/graphql/schemabuilder"
)

type C01Team struct {
	Id   int64
	Name string
}

type C01User struct {
	Id     int64
	Name   string
	TeamId *int64
}

type c01Thing struct {
	schemabuilder.Union
	*C01User
	*C01Team
}

var c01Teams = map[int64]*C01Team{10: {10, "red"}, 20: {20, "blue"}}

func c01Users() []*C01User {
	ten, twenty, none := int64(10), int64(20), int64(99)
	return []*C01User{{1, "ann", &ten}, {2, "bob", nil}, {3, "cy", &twenty}, {4, "di", &none}, {5, "ed", &ten}}
}

type c01Mode struct {
	name     string
	kind     string // plain, expensive, batch, fallback-batch, fallback-plain
	parallel int
}

func c01Schema(m c01Mode) *graphql.Schema {
	sb := schemabuilder.NewSchema()
	q := sb.Query()
	user := sb.Object("C01User", C01User{})
	user.Key("id")
	sb.Object("C01Team", C01Team{})
	var opts []schemabuilder.FieldFuncOption
	if m.parallel > 0 {
		opts = append(opts, schemabuilder.NumParallelInvocationsFunc(func(ctx context.Context, n int) int { return m.parallel }))
	}
	score := func(u *C01User) int64 { return u.Id*10 + int64(len(u.Name)) }
	team := func(u *C01User) *C01Team {
		if u.TeamId == nil {
			return nil
		}
		return c01Teams[*u.TeamId]
	}
	friends := func(u *C01User) []*C01User {
		var out []*C01User
		for _, o := range c01Users() {
			if o.Id != u.Id && (o.Id+u.Id)%2 == 1 {
				out = append(out, o)
			}
		}
		return out
	}
	batchScore := func(ctx context.Context, in map[batch.Index]*C01User) (map[batch.Index]int64, error) {
		out := map[batch.Index]int64{}
		for k, u := range in {
			out[k] = score(u)
		}
		return out, nil
	}
	batchTeam := func(ctx context.Context, in map[batch.Index]*C01User) (map[batch.Index]*C01Team, error) {
		out := map[batch.Index]*C01Team{}
		for k, u := range in {
			out[k] = team(u)
		}
		return out, nil
	}
	batchFriends := func(ctx context.Context, in map[batch.Index]*C01User) (map[batch.Index][]*C01User, error) {
		out := map[batch.Index][]*C01User{}
		for k, u := range in {
			out[k] = friends(u)
		}
		return out, nil
	}
	switch m.kind {
	case "plain":
		user.FieldFunc("score", score, opts...)
		user.FieldFunc("team", team, opts...)
		user.FieldFunc("friends", friends, opts...)
	case "expensive":
		o := append(opts, schemabuilder.Expensive)
		user.FieldFunc("score", func(ctx context.Context, u *C01User) int64 { return score(u) }, o...)
		user.FieldFunc("team", func(ctx context.Context, u *C01User) *C01Team { return team(u) }, o...)
		user.FieldFunc("friends", func(ctx context.Context, u *C01User) []*C01User { return friends(u) }, o...)
	case "batch":
		user.BatchFieldFunc("score", batchScore, opts...)
		user.BatchFieldFunc("team", batchTeam, opts...)
		user.BatchFieldFunc("friends", batchFriends, opts...)
	case "fallback-batch", "fallback-plain":
		flag := func(context.Context) bool { return m.kind == "fallback-batch" }
		nn := append(append([]schemabuilder.FieldFuncOption{}, opts...), schemabuilder.NonNullable)
		user.BatchFieldFuncWithFallback("score", batchScore, func(ctx context.Context, u *C01User) (int64, error) { return score(u), nil }, flag, nn...)
		user.BatchFieldFuncWithFallback("team", batchTeam, func(ctx context.Context, u *C01User) (*C01Team, error) { return team(u), nil }, flag, opts...)
		user.BatchFieldFuncWithFallback("friends", batchFriends, func(ctx context.Context, u *C01User) ([]*C01User, error) { return friends(u), nil }, flag, nn...)
	}
	q.FieldFunc("users", func() []*C01User { return c01Users() })
	q.FieldFunc("userValues", func() []C01User {
		var out []C01User
		for _, u := range c01Users() {
			out = append(out, *u)
		}
		return out
	})
	q.FieldFunc("nobody", func() *C01User { return nil })
	q.FieldFunc("first", func() *C01User { return c01Users()[0] })
	q.FieldFunc("things", func() []*c01Thing {
		us := c01Users()
		return []*c01Thing{{C01User: us[0]}, {C01Team: c01Teams[10]}, nil, {C01User: us[1]}, {C01Team: c01Teams[20]}}
	})
	sb.Mutation().FieldFunc("noop", func() bool { return true })
	return sb.MustBuild()
}

// ---- selection trees, their query text, and a naive sequential evaluation over the data (the oracle the property names)

type c01Sel struct {
	alias, name string
	skip        bool // carries @skip(if: true)
	sub         *c01Set
}
type c01Frag struct {
	on   string
	skip bool
	set  *c01Set
}
type c01Set struct {
	sels  []c01Sel
	frags []c01Frag
}

func (s *c01Set) text() string {
	if s == nil {
		return ""
	}
	out := "{ "
	for _, x := range s.sels {
		if x.alias != "" && x.alias != x.name {
			out += x.alias + ": "
		}
		out += x.name + " "
		if x.skip {
			out += "@skip(if: true) "
		}
		out += x.sub.text()
	}
	for _, f := range s.frags {
		out += "... on " + f.on + " "
		if f.skip {
			out += "@skip(if: true) "
		}
		out += f.set.text()
	}
	return out + "} "
}

func c01TypeName(v interface{}) string {
	switch v.(type) {
	case *C01User, C01User:
		return "C01User"
	case *C01Team:
		return "C01Team"
	}
	return "Query"
}

func c01Field(obj interface{}, name string) interface{} {
	if u, ok := obj.(C01User); ok {
		obj = &u
	}
	switch o := obj.(type) {
	case *C01User:
		switch name {
		case "id":
			return o.Id
		case "name":
			return o.Name
		case "score":
			return o.Id*10 + int64(len(o.Name))
		case "team":
			if o.TeamId == nil || c01Teams[*o.TeamId] == nil {
				return nil
			}
			return c01Teams[*o.TeamId]
		case "friends":
			out := []interface{}{}
			for _, x := range c01Users() {
				if x.Id != o.Id && (x.Id+o.Id)%2 == 1 {
					out = append(out, x)
				}
			}
			return out
		}
	case *C01Team:
		switch name {
		case "id":
			return o.Id
		case "name":
			return o.Name
		}
	case nil:
		us := c01Users()
		switch name {
		case "users":
			out := []interface{}{}
			for _, u := range us {
				out = append(out, u)
			}
			return out
		case "userValues":
			out := []interface{}{}
			for _, u := range us {
				out = append(out, *u)
			}
			return out
		case "nobody":
			return nil
		case "first":
			return us[0]
		case "things":
			return []interface{}{us[0], c01Teams[10], nil, us[1], c01Teams[20]}
		}
	}
	panic("no field " + name)
}

func c01Eval(obj interface{}, set *c01Set) interface{} {
	out := map[string]interface{}{}
	var walk func(set *c01Set)
	walk = func(set *c01Set) {
		for _, s := range set.sels {
			if s.skip {
				continue
			}
			alias := s.alias
			if alias == "" {
				alias = s.name
			}
			if s.name == "__typename" {
				out[alias] = c01TypeName(obj)
				continue
			}
			out[alias] = c01Value(c01Field(obj, s.name), s.sub)
		}
		for _, f := range set.frags {
			if !f.skip && f.on == c01TypeName(obj) {
				walk(f.set)
			}
		}
	}
	walk(set)
	return out
}

func c01Value(v interface{}, sub *c01Set) interface{} {
	switch x := v.(type) {
	case nil:
		return nil
	case []interface{}:
		out := []interface{}{}
		for _, e := range x {
			out = append(out, c01Value(e, sub))
		}
		return out
	case int64:
		return float64(x)
	case string:
		return x
	case *C01User:
		if x == nil {
			return nil
		}
		return c01Eval(x, sub)
	case *C01Team:
		if x == nil {
			return nil
		}
		return c01Eval(x, sub)
	case C01User:
		return c01Eval(x, sub)
	}
	panic(fmt.Sprintf("unexpected %T", v))
}

func c01Trees() []*c01Set {
	f := func(name string) c01Sel { return c01Sel{name: name} }
	al := func(alias, name string) c01Sel { return c01Sel{alias: alias, name: name} }
	with := func(s c01Sel, sub *c01Set) c01Sel { s.sub = sub; return s }
	skipped := func(s c01Sel) c01Sel { s.skip = true; return s }
	set := func(sels ...c01Sel) *c01Set { return &c01Set{sels: sels} }
	team := set(f("id"), f("name"))
	return []*c01Set{
		set(with(f("users"), set(f("id"), f("name"), f("score")))),
		set(with(f("users"), set(f("id"), with(f("team"), team))), with(f("nobody"), set(f("id"), f("score"))), with(f("first"), set(f("score"), with(f("team"), set(f("name")))))),
		set(with(f("users"), set(al("a", "score"), al("b", "score"), f("name"), al("kind", "__typename"), with(f("team"), set(al("t", "__typename"), f("name")))))),
		set(with(f("users"), set(f("id"), with(f("friends"), set(f("id"), f("score"), with(f("team"), set(f("name"))), with(f("friends"), set(f("id")))))))),
		{sels: []c01Sel{with(f("users"), &c01Set{sels: []c01Sel{f("id")}, frags: []c01Frag{{on: "C01User", set: set(f("score"), with(f("team"), set(f("id"))))}, {on: "C01User", set: set(f("name"))}, {on: "C01User", skip: true, set: set(al("never", "id"))}}})}},
		set(with(f("users"), set(f("id"), skipped(f("score")), with(f("team"), set(f("name")))))),
		{sels: []c01Sel{with(f("things"), &c01Set{sels: []c01Sel{f("__typename")}, frags: []c01Frag{{on: "C01User", set: set(f("id"), f("score"), with(f("team"), set(f("name"))))}, {on: "C01Team", set: team}}})}},
		{sels: []c01Sel{with(f("things"), &c01Set{frags: []c01Frag{{on: "C01User", set: set(with(f("friends"), set(f("name"), f("score"))))}}}), with(f("users"), set(f("score")))}},
		{sels: []c01Sel{with(f("things"), &c01Set{sels: []c01Sel{al("what", "__typename")}, frags: []c01Frag{{on: "C01Team", set: set(f("name"))}, {on: "C01Team", set: set(f("id"))}, {on: "C01User", skip: true, set: set(f("id"))}}})}},
		set(with(f("first"), set(with(f("friends"), set(with(f("friends"), set(with(f("friends"), set(f("id"), f("score")))))))))),
		set(with(al("u1", "users"), set(f("score"))), with(al("u2", "users"), set(with(f("team"), set(f("name"))), f("score")))),
		set(with(f("userValues"), set(f("id"), f("score"), with(f("team"), set(f("name"))), with(f("friends"), set(f("id")))))),
	}
}

func c01StripKeys(v interface{}) interface{} {
	switch x := v.(type) {
	case map[string]interface{}:
		out := map[string]interface{}{}
		for k, e := range x {
			if k != "__key" {
				out[k] = c01StripKeys(e)
			}
		}
		return out
	case []interface{}:
		out := make([]interface{}, len(x))
		for i, e := range x {
			out[i] = c01StripKeys(e)
		}
		return out
	}
	return v
}

func c01Exec(schema *graphql.Schema, query string, batched bool) (interface{}, error) {
	q, err := graphql.Parse(query, nil)
	if err != nil {
		return nil, err
	}
	if err := graphql.PrepareQuery(context.Background(), schema.Query, q.SelectionSet); err != nil {
		return nil, err
	}
	ctx := context.Background()
	if batched {
		ctx = batch.WithBatching(ctx)
	}
	v, err := graphql.NewExecutor(graphql.NewImmediateGoroutineScheduler()).Execute(ctx, schema.Query, nil, q)
	if err != nil {
		return nil, err
	}
	raw, err := json.Marshal(v)
	if err != nil {
		return nil, err
	}
	var out interface{}
	json.Unmarshal(raw, &out)
	return c01StripKeys(out), nil
}

func TestVerifBounded_C01_Modes(t *testing.T) {
	modes := []c01Mode{{"plain", "plain", 0}, {"expensive", "expensive", 0}, {"batch", "batch", 0}, {"fallback-batch", "fallback-batch", 0}, {"fallback-plain", "fallback-plain", 0},
		{"plain x2", "plain", 2}, {"plain x3", "plain", 3}, {"batch x1", "batch", 1}, {"batch x2", "batch", 2}, {"batch x3", "batch", 3}, {"fallback-batch x2", "fallback-batch", 2}}
	evals, distinct, failures := 0, 0, 0
	fail := func(query, mode, detail string) {
		failures++
		if failures <= 3 {
			b, _ := json.Marshal(map[string]interface{}{"query": query, "mode": mode, "detail": detail})
			fmt.Printf("VERIF-FAIL-INPUT: %s\n", b)
			t.Errorf("%s [%s]: %s", query, mode, detail)
		} else {
			t.Fail()
		}
	}
	schemas := make([]*graphql.Schema, len(modes))
	for i, m := range modes {
		schemas[i] = c01Schema(m)
	}
	for _, tree := range c01Trees() {
		distinct++
		query := tree.text()
		want := c01Eval(nil, tree)
		for i := range modes {
			for rep := 0; rep < 3; rep++ {
				evals++
				got, err := c01Exec(schemas[i], query, true)
				if err != nil {
					fail(query, modes[i].name, "error: "+err.Error())
					break
				}
				if !reflect.DeepEqual(got, want) {
					g, _ := json.Marshal(got)
					r, _ := json.Marshal(want)
					fail(query, modes[i].name, fmt.Sprintf("result %s differs from the sequential evaluation %s", g, r))
					break
				}
			}
		}
	}
	fmt.Printf("VERIF-SAMPLE: { users { id friends { id score team { name } friends { id } } } } in mode batch x3\n")
	fmt.Printf("VERIF-BOUNDED: evaluations=%d distinct=%d failures=%d\n", evals, distinct, failures)
}
