package graphql_test

// Bounded stand-in for the envelope clause of C15 on the HTTP endpoint: hostile request bodies and methods are served by the
// real HTTPHandler under a recover; every request is answered (a JSON body with data or errors) within the limit, none
// panics. Labelled bounded.

import (
	"encoding/json"
	"fmt"
	"net/http/httptest"
	"strings"
	"testing"
	"time"

	"github.com/samsarahq/thunder/graphql"
	"github.com/samsarahq/thunder/graphql/schemabuilder"
)

func TestVerifBounded_C15_HTTPEnvelopes(t *testing.T) {
	sb := schemabuilder.NewSchema()
	sb.Query().FieldFunc("ok", func() string { return "fine" })
	sb.Query().FieldFunc("echo", func(args struct{ S string }) string { return args.S })
	sb.Mutation().FieldFunc("noop", func() bool { return true })
	handler := graphql.HTTPHandler(sb.MustBuild())
	deep := strings.Repeat("[", 2000) + strings.Repeat("]", 2000)
	type reqT struct{ method, body string }
	reqs := []reqT{
		{"POST", ``}, {"POST", `null`}, {"POST", `[]`}, {"POST", `{}`}, {"POST", `"{ ok }"`}, {"POST", `{"query": 5}`}, {"POST", `{"query": null}`},
		{"POST", `{"query": "{ ok }", "variables": 5}`}, {"POST", `{"query": "{ ok }", "variables": [1]}`}, {"POST", `{"query": "{ ok }", "variables": null}`},
		{"POST", `{"query": "query($s: String!) { echo(s: $s) }", "variables": {"s": ` + deep + `}}`}, {"POST", `{"query": "query($s: String!) { echo(s: $s) }", "variables": {"s": null}}`},
		{"POST", `{"query": "` + strings.Repeat("{ ok ", 500) + `"}`}, {"POST", `{"query": "mutation { noop { x } }"}`}, {"POST", `{"query": "subscription { ok }"}`},
		{"POST", `{"query": "{ ok }"`}, {"POST", "\x00\xff\xfe"}, {"POST", `{"query": "{ ok }"} trailing`}, {"GET", ``}, {"PUT", `{"query": "{ ok }"}`}, {"DELETE", ``},
		{"POST", `{"query": "{ ok }", "operationName": {"x": 1}}`}, {"POST", `{"query": "{ ...F } fragment F on Query { ...F }"}`}, {"POST", `{"query": "{ ok }"}`},
	}
	evals, failures := 0, 0
	for _, r := range reqs {
		evals++
		type outcome struct {
			panicked interface{}
			body     string
			code     int
		}
		done := make(chan outcome, 1)
		go func() {
			w := httptest.NewRecorder()
			var o outcome
			func() {
				defer func() { o.panicked = recover() }()
				handler.ServeHTTP(w, httptest.NewRequest(r.method, "/graphql", strings.NewReader(r.body)))
			}()
			o.body, o.code = w.Body.String(), w.Code
			done <- o
		}()
		detail := ""
		select {
		case o := <-done:
			var decoded map[string]interface{}
			switch {
			case o.panicked != nil:
				detail = fmt.Sprintf("panic: %v", o.panicked)
			case json.Unmarshal([]byte(o.body), &decoded) != nil:
				detail = fmt.Sprintf("the response is not a JSON object: %q (status %d)", trunc(o.body, 120), o.code)
			case decoded["data"] == nil && decoded["errors"] == nil:
				detail = "the response carries neither data nor errors: " + trunc(o.body, 120)
			}
		case <-time.After(5 * time.Second):
			detail = "not answered within 5s"
		}
		if detail != "" {
			failures++
			if failures <= 3 {
				b, _ := json.Marshal(map[string]interface{}{"method": r.method, "body": trunc(r.body, 200), "detail": detail})
				fmt.Printf("VERIF-FAIL-INPUT: %s\n", b)
				t.Errorf("%s %s: %s", r.method, trunc(r.body, 100), detail)
			} else {
				t.Fail()
			}
		}
	}
	fmt.Printf("VERIF-SAMPLE: POST {\"query\": \"{ ok }\", \"variables\": 5}\n")
	fmt.Printf("VERIF-BOUNDED: evaluations=%d distinct=%d failures=%d\n", evals, evals, failures)
}
