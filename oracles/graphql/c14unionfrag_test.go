package graphql_test

// Bounded stand-in for C14 / C19 / C15 on fragments whose type condition is the UNION itself (defect s32: validation and
// execution both skipped such a fragment without a word - an unknown field inside it was accepted, and everything selected
// through it was missing from the response). Each query that reaches the members' fields through fragments on the union -
// named or inline, nested, spread twice, carrying @skip / @include - must return exactly what the same query returns with
// those fragments written out (C19: a fragment excluded by its directives contributes nothing); an unknown field or a
// sub-selection on a scalar inside such a fragment must be rejected by validation; and a chain of union fragments that
// each spread the next one twice must be validated and executed in time that does not double per level. Labelled bounded.

import (
	"context"
	"encoding/json"
	"fmt"
	"strings"
	"testing"
	"time"

	"github.com/samsarahq/thunder/graphql"
	"github.com/samsarahq/thunder/graphql/schemabuilder"
)

type C14uCat struct {
	Name string
	Age  int64
}
type C14uBox struct{ Size int64 }
type C14uEither struct {
	schemabuilder.Union
	*C14uCat
	*C14uBox
}

func c14uRun(schema *graphql.Schema, query string) (string, error) {
	q, err := graphql.Parse(query, map[string]interface{}{"yes": true, "no": false})
	if err != nil {
		return "", fmt.Errorf("parse: %v", err)
	}
	if err := graphql.PrepareQuery(context.Background(), schema.Query, q.SelectionSet); err != nil {
		return "", fmt.Errorf("validation: %v", err)
	}
	v, err := graphql.NewExecutor(graphql.NewImmediateGoroutineScheduler()).Execute(context.Background(), schema.Query, nil, q)
	if err != nil {
		return "", fmt.Errorf("execution: %v", err)
	}
	b, _ := json.Marshal(v)
	return string(b), nil
}

func TestVerifBounded_C14_UnionFragments(t *testing.T) {
	sb := schemabuilder.NewSchema()
	sb.Object("C14uCat", C14uCat{})
	sb.Object("C14uBox", C14uBox{})
	q := sb.Query()
	q.FieldFunc("either", func() []*C14uEither {
		return []*C14uEither{{C14uCat: &C14uCat{Name: "tom", Age: 3}}, {C14uBox: &C14uBox{Size: 9}}, {C14uCat: &C14uCat{Name: "kit", Age: 1}}}
	})
	q.FieldFunc("one", func() *C14uEither { return &C14uEither{C14uBox: &C14uBox{Size: 2}} })
	q.FieldFunc("none", func() *C14uEither { return nil })
	sb.Mutation().FieldFunc("noop", func() bool { return true })
	schema := sb.MustBuild()

	// query with fragments on the union, and the same query with them written out
	pairs := [][2]string{
		{`{ either { ... on C14uEither { ... on C14uCat { name } } } }`, `{ either { ... on C14uCat { name } } }`},
		{`{ either { ...U } } fragment U on C14uEither { __typename ... on C14uCat { name age } ... on C14uBox { size } }`, `{ either { __typename ... on C14uCat { name age } ... on C14uBox { size } } }`},
		{`{ either { ...U ...U } } fragment U on C14uEither { ... on C14uBox { size } }`, `{ either { ... on C14uBox { size } } }`},
		{`{ either { ... on C14uCat { name } ...U } } fragment U on C14uEither { ... on C14uCat { age } ... on C14uBox { size } }`, `{ either { ... on C14uCat { name age } ... on C14uBox { size } } }`},
		{`{ either { ...U } } fragment U on C14uEither { ...V ... on C14uBox { size } } fragment V on C14uEither { t: __typename ... on C14uCat { name } }`, `{ either { t: __typename ... on C14uCat { name } ... on C14uBox { size } } }`},
		{`{ either { ... on C14uEither @skip(if: true) { ... on C14uCat { name } } ... on C14uBox { size } } }`, `{ either { ... on C14uBox { size } } }`},
		{`{ either { ... on C14uEither @include(if: $no) { ... on C14uCat { name } } ... on C14uEither @include(if: $yes) { ... on C14uCat { age } } } }`, `{ either { ... on C14uCat { age } } }`},
		{`{ either { ...U @skip(if: $yes) ...U } } fragment U on C14uEither { ... on C14uCat { name } }`, `{ either { ... on C14uCat { name } } }`},
		{`{ either { ... on C14uEither { ... on C14uCat @skip(if: true) { name } ... on C14uCat { age } } } }`, `{ either { ... on C14uCat { age } } }`},
		{`{ one { ...U } none { ...U } } fragment U on C14uEither { __typename ... on C14uBox { size } ... on C14uCat { name } }`, `{ one { __typename ... on C14uBox { size } ... on C14uCat { name } } none { __typename ... on C14uBox { size } ... on C14uCat { name } } }`},
		{`{ either { ... on C14uEither { ... on C14uEither { ... on C14uEither { ... on C14uBox { size } } } } } }`, `{ either { ... on C14uBox { size } } }`},
	}
	// must be rejected by validation
	invalid := []string{
		`{ either { ... on C14uEither { nope } } }`,
		`{ either { ...U } } fragment U on C14uEither { ... on C14uCat { nope } }`,
		`{ either { ...U } } fragment U on C14uEither { ... on C14uCat { name { x } } }`,
		`{ either { ... on C14uEither { ... on C14uEither { size } } } }`,
		`{ either { ...U } } fragment U on C14uEither { __typename { x } }`,
	}
	evals, failures := 0, 0
	fail := func(query, detail string) {
		failures++
		if failures <= 3 {
			b, _ := json.Marshal(map[string]interface{}{"query": query, "detail": detail})
			fmt.Printf("VERIF-FAIL-INPUT: %s\n", b)
			t.Errorf("%s: %s", query, detail)
		} else {
			t.Fail()
		}
	}
	for _, p := range pairs {
		evals++
		want, err := c14uRun(schema, p[1])
		if err != nil {
			fail(p[1], "the written-out query fails: "+err.Error())
			continue
		}
		got, err := c14uRun(schema, p[0])
		if err != nil {
			fail(p[0], "fails where the written-out query answers: "+err.Error())
			continue
		}
		if got != want {
			fail(p[0], fmt.Sprintf("returns %s, the same query with the union fragments written out returns %s", got, want))
		}
	}
	for _, query := range invalid {
		evals++
		if got, err := c14uRun(schema, query); err == nil {
			fail(query, "accepted (an unknown field or a sub-selection on a scalar inside a fragment on the union); answered "+got)
		} else if !strings.HasPrefix(err.Error(), "validation:") {
			fail(query, "not rejected by validation but later: "+err.Error())
		}
	}
	// a chain of union fragments each spreading the next twice: 2^depth paths, depth+1 distinct fragments
	for _, depth := range []int{8, 16, 24} {
		evals++
		var sb strings.Builder
		sb.WriteString(`{ either { ...F0 } }`)
		for i := 0; i < depth; i++ {
			fmt.Fprintf(&sb, ` fragment F%d on C14uEither { ...F%d ...F%d }`, i, i+1, i+1)
		}
		fmt.Fprintf(&sb, ` fragment F%d on C14uEither { ... on C14uCat { name } ... on C14uBox { size } }`, depth)
		query := sb.String()
		done := make(chan string, 1)
		go func() {
			got, err := c14uRun(schema, query)
			if err != nil {
				done <- "error: " + err.Error()
				return
			}
			done <- got
		}()
		select {
		case got := <-done:
			if want := `{"either":[{"name":"tom"},{"size":9},{"name":"kit"}]}`; got != want {
				fail(fmt.Sprintf("chain of %d union fragments, each spreading the next twice", depth), "returns "+got+", expected "+want)
			}
		case <-time.After(20 * time.Second):
			fail(fmt.Sprintf("chain of %d union fragments, each spreading the next twice", depth), "not answered within 20s: the work doubles per level")
		}
		if failures > 0 {
			break
		}
	}
	fmt.Printf("VERIF-SAMPLE: { either { ...U } } fragment U on C14uEither { ...V ... on C14uBox { size } } fragment V on C14uEither { t: __typename ... on C14uCat { name } }\n")
	fmt.Printf("VERIF-BOUNDED: evaluations=%d distinct=%d failures=%d\n", evals, evals, failures)
}
