package graphql

import (
	"context"
	"fmt"
	"strings"
	"testing"
)

// Property-level oracle for C19 on one node: "a node carrying both directives is included only
// if both allow it"; @skip(if:b) allows iff !b, @include(if:b) allows iff b. The first directive
// of each name counts (a document cannot legally repeat one).
func verifC19Oracle(ds []*Directive) (include bool, defined bool) {
	include = true
	seen := map[string]bool{}
	for _, d := range ds {
		if d.Name != "skip" && d.Name != "include" || seen[d.Name] {
			continue
		}
		seen[d.Name] = true
		args, ok := d.Args.(map[string]interface{})
		if !ok {
			return false, false
		}
		b, ok := args["if"].(bool)
		if !ok {
			return false, false
		}
		if d.Name == "skip" && b || d.Name == "include" && !b {
			include = false
		}
	}
	return include, true
}

func verifC19Check(ds []*Directive) (bad bool, detail string) {
	want, defined := verifC19Oracle(ds)
	got, err := ShouldIncludeNode(ds)
	if !defined {
		return false, "oracle undefined (malformed directive)"
	}
	if err != nil {
		return true, fmt.Sprintf("well-formed directives rejected: %v", err)
	}
	if got != want {
		return true, fmt.Sprintf("ShouldIncludeNode=%v, property demands %v", got, want)
	}
	return false, "agrees"
}

func verifDirectivesJSON(ds []*Directive) string {
	var l []map[string]interface{}
	for _, d := range ds {
		l = append(l, map[string]interface{}{"Name": d.Name, "Args": d.Args})
	}
	return verifJSON(l)
}

func TestVerifReplay_ShouldIncludeNode(t *testing.T) {
	in := verifLoadInput(t)
	params, _ := in["params"].(map[string]interface{})
	list, _ := params["directives"].([]interface{})
	var ds []*Directive
	for _, e := range list {
		m, ok := e.(map[string]interface{})
		if !ok {
			t.Logf("VERIF-REPLAY: NOT-CONFIRMED nil directive in model")
			return
		}
		name, _ := m["Name"].(string)
		ds = append(ds, &Directive{Name: name, Args: verifAny(m["Args"])})
	}
	bad, detail := verifC19Check(ds)
	if bad {
		fmt.Printf("VERIF-REPLAY: CONFIRMED input=%s %s\n", verifDirectivesJSON(ds), detail)
	} else {
		fmt.Printf("VERIF-REPLAY: NOT-CONFIRMED input=%s %s\n", verifDirectivesJSON(ds), detail)
	}
}

// Small-scope search: every list of at most 3 directives over {skip,include,other} x {true,false}.
func TestVerifSearch_ShouldIncludeNode(t *testing.T) {
	var alphabet []*Directive
	for _, n := range []string{"skip", "include", "other"} {
		for _, b := range []bool{true, false} {
			alphabet = append(alphabet, &Directive{Name: n, Args: map[string]interface{}{"if": b}})
		}
	}
	evals, distinct, failures := 0, 0, 0
	var rec func(cur []*Directive, want int)
	rec = func(cur []*Directive, want int) {
		if len(cur) == want {
			evals++
			if len(cur) > 0 {
				distinct++
			}
			if bad, detail := verifC19Check(cur); bad {
				failures++
				if failures == 1 {
					fmt.Printf("VERIF-FAIL-INPUT: %s\n", verifJSON(map[string]interface{}{"directives": verifDirectivesJSON(cur), "detail": detail}))
				}
			}
			return
		}
		for _, a := range alphabet {
			rec(append(append([]*Directive{}, cur...), a), want)
		}
	}
	for n := 0; n <= 3; n++ { // shortest failing list first
		rec(nil, n)
	}
	fmt.Printf("VERIF-SAMPLE: [skip(if:false) include(if:false)]\n")
	fmt.Printf("VERIF-BOUNDED: evaluations=%d distinct=%d failures=%d\n", evals, distinct, failures)
}

// "One use of a fragment never affects another use of the same fragment": every spread site of a named fragment
// must be included or excluded by its own directives only.
func verifC19SpreadCheck(query string, vars map[string]interface{}, want map[string]bool) (bool, string) {
	q, err := Parse(query, vars)
	if err != nil {
		return false, "rejected: " + err.Error()
	}
	for _, sel := range q.SelectionSet.Selections {
		expect, ok := want[sel.Alias]
		if !ok || sel.SelectionSet == nil {
			continue
		}
		for _, f := range sel.SelectionSet.Fragments {
			got, err := ShouldIncludeNode(f.Directives)
			if err != nil {
				return true, "directive error: " + err.Error()
			}
			if got != expect {
				return true, fmt.Sprintf("the spread under %q is included=%v, its own directives say %v", sel.Alias, got, expect)
			}
		}
	}
	return false, "agrees"
}

func TestVerifSearch_C19_FragmentSharing(t *testing.T) {
	dirs := []struct {
		text    string
		include bool
	}{{"", true}, {"@skip(if: true)", false}, {"@skip(if: false)", true}, {"@include(if: false)", false}, {"@include(if: true)", true}, {"@include(if: $v)", true}, {"@skip(if: $v)", false}}
	evals, distinct, failures := 0, 0, 0
	for _, d1 := range dirs {
		for _, d2 := range dirs {
			for _, d3 := range dirs {
				evals++
				if d1.text != d2.text || d2.text != d3.text {
					distinct++
				}
				q := fmt.Sprintf("query Q($v: Boolean) { a { ...F %s } b { ...F %s } c { ...F %s } } fragment F on T { x }", d1.text, d2.text, d3.text)
				want := map[string]bool{"a": d1.include, "b": d2.include, "c": d3.include}
				if bad, detail := verifC19SpreadCheck(q, map[string]interface{}{"v": true}, want); bad {
					failures++
					if failures == 1 {
						fmt.Printf("VERIF-FAIL-INPUT: %s\n", verifJSON(map[string]interface{}{"query": q, "variables": map[string]interface{}{"v": true}, "detail": detail}))
					}
				}
			}
		}
	}
	fmt.Printf("VERIF-SAMPLE: { a { ...F @skip(if: true) } b { ...F } c { ...F } } fragment F on T { x }\n")
	fmt.Printf("VERIF-BOUNDED: evaluations=%d distinct=%d failures=%d\n", evals, distinct, failures)
}

// ---- end-to-end oracle on the real executor: a query with directives returns what the textually pruned query returns.
func verifC19Schema() *Schema {
	noArgs := func(json interface{}) (interface{}, error) { return nil, nil }
	scalar := func(v interface{}) *Field {
		return &Field{Resolve: func(ctx context.Context, source, args interface{}, s *SelectionSet) (interface{}, error) { return v, nil }, Type: &Scalar{Type: "int"}, ParseArguments: noArgs}
	}
	inner := &Object{Name: "Inner", Fields: map[string]*Field{"x": scalar(1), "y": scalar(2)}}
	type innerT struct{}
	return &Schema{Query: &Object{Name: "Query", Fields: map[string]*Field{
		"a": scalar(7),
		"o": {Resolve: func(ctx context.Context, source, args interface{}, s *SelectionSet) (interface{}, error) { return &innerT{}, nil }, Type: inner, ParseArguments: noArgs},
	}}}
}

func verifC19Exec(query string) (interface{}, error) {
	schema := verifC19Schema()
	q, err := Parse(query, map[string]interface{}{})
	if err != nil {
		return nil, err
	}
	if err := PrepareQuery(context.Background(), schema.Query, q.SelectionSet); err != nil {
		return nil, err
	}
	e := NewExecutor(NewImmediateGoroutineScheduler())
	return e.Execute(context.Background(), schema.Query, nil, q)
}

type verifNode struct {
	text    string // the node without directives
	dir     string
	include bool
}

// TestVerifSearch_C19_Exec: every pair of top-level nodes from a small alphabet (fields, aliases, __typename, an object
// field with sub-selections), each with one of five directive forms; the result must equal that of the pruned query.
func TestVerifSearch_C19_Exec(t *testing.T) {
	texts := []string{"a", "b: a", "__typename", "t: __typename", "o { x }", "o { y }", "o { x @skip(if: true) y }"}
	dirs := []struct {
		d  string
		in bool
	}{{"", true}, {"@skip(if: true)", false}, {"@skip(if: false)", true}, {"@include(if: false)", false}, {"@skip(if: false) @include(if: false)", false}}
	withDir := func(text, d string) string {
		if d == "" {
			return text
		}
		if i := strings.Index(text, " {"); i >= 0 {
			return text[:i] + " " + d + text[i:]
		}
		return text + " " + d
	}
	evals, distinct, failures := 0, 0, 0
	for _, t1 := range texts {
		for _, d1 := range dirs {
			for _, t2 := range texts {
				for _, d2 := range dirs {
					evals++
					if d1.d != "" || d2.d != "" {
						distinct++
					}
					full := "{ " + withDir(t1, d1.d) + " " + withDir(t2, d2.d) + " }"
					pruned := "{ "
					if d1.in {
						pruned += t1 + " "
					}
					if d2.in {
						pruned += t2 + " "
					}
					pruned += "}"
					pruned = strings.ReplaceAll(pruned, "x @skip(if: true) ", "")
					if !d1.in && !d2.in {
						continue // the pruned query would be empty (not a legal document)
					}
					got, err1 := verifC19Exec(full)
					want, err2 := verifC19Exec(pruned)
					if err2 != nil {
						continue
					}
					if err1 != nil || verifJSON(got) != verifJSON(want) {
						failures++
						if failures == 1 {
							fmt.Printf("VERIF-FAIL-INPUT: %s\n", verifJSON(map[string]interface{}{"query": full, "pruned": pruned, "got": got, "want": want, "err": fmt.Sprint(err1)}))
						}
					}
				}
			}
		}
	}
	fmt.Printf("VERIF-SAMPLE: { __typename @skip(if: true) a }\n")
	fmt.Printf("VERIF-BOUNDED: evaluations=%d distinct=%d failures=%d\n", evals, distinct, failures)
}

// ---- C01 (union dispatch): every non-nil union value is rendered as an object made of the merge of all fragments
// applicable to its concrete member type (at least {} when none applies).
type verifA struct{ X int }
type verifB struct{ Y int }
type verifU struct {
	A *verifA
	B *verifB
}

func verifUnionSchema() *Schema {
	noArgs := func(json interface{}) (interface{}, error) { return nil, nil }
	field := func(f func(src interface{}) interface{}) *Field {
		return &Field{Resolve: func(ctx context.Context, source, args interface{}, s *SelectionSet) (interface{}, error) { return f(source), nil }, Type: &Scalar{Type: "int"}, ParseArguments: noArgs}
	}
	a := &Object{Name: "A", Fields: map[string]*Field{"x": field(func(s interface{}) interface{} { return s.(*verifA).X }), "x2": field(func(s interface{}) interface{} { return s.(*verifA).X * 2 })}}
	b := &Object{Name: "B", Fields: map[string]*Field{"y": field(func(s interface{}) interface{} { return s.(*verifB).Y })}}
	u := &Union{Name: "U", Types: map[string]*Object{"A": a, "B": b}}
	return &Schema{Query: &Object{Name: "Query", Fields: map[string]*Field{
		"us": {Resolve: func(ctx context.Context, source, args interface{}, s *SelectionSet) (interface{}, error) {
			return []*verifU{{A: &verifA{X: 1}}, {B: &verifB{Y: 5}}, nil}, nil
		}, Type: &List{Type: u}, ParseArguments: noArgs},
	}}}
}

func TestVerifSearch_C01_Union(t *testing.T) {
	frags := []struct {
		text string
		a, b map[string]interface{} // what the fragment contributes for an A / a B
	}{
		{"... on A { x }", map[string]interface{}{"x": 1}, nil},
		{"... on A { x2 }", map[string]interface{}{"x2": 2}, nil},
		{"... on B { y }", nil, map[string]interface{}{"y": 5}},
		{"... on A { x } ... on A { x2 }", map[string]interface{}{"x": 1, "x2": 2}, nil},
		{"... on A @skip(if: true) { x }", map[string]interface{}{}, nil},
		{"... on B @include(if: false) { y } ... on A { x }", map[string]interface{}{"x": 1}, map[string]interface{}{}},
	}
	schema := verifUnionSchema()
	evals, distinct, failures := 0, 0, 0
	for i, f1 := range frags {
		for j, f2 := range frags {
			if j < i {
				continue
			}
			evals++
			distinct++
			query := "{ us { " + f1.text
			wantA, wantB := map[string]interface{}{}, map[string]interface{}{}
			merge := func(dst, src map[string]interface{}) {
				for k, v := range src {
					dst[k] = v
				}
			}
			merge(wantA, f1.a)
			merge(wantB, f1.b)
			if i != j {
				query += " " + f2.text
				merge(wantA, f2.a)
				merge(wantB, f2.b)
			}
			query += " } }"
			q, err := Parse(query, map[string]interface{}{})
			if err != nil {
				continue
			}
			if err := PrepareQuery(context.Background(), schema.Query, q.SelectionSet); err != nil {
				continue
			}
			got, err := NewExecutor(NewImmediateGoroutineScheduler()).Execute(context.Background(), schema.Query, nil, q)
			want := map[string]interface{}{"us": []interface{}{wantA, wantB, nil}}
			if err != nil || verifJSON(got) != verifJSON(want) {
				failures++
				if failures == 1 {
					fmt.Printf("VERIF-FAIL-INPUT: %s\n", verifJSON(map[string]interface{}{"query": query, "got": got, "want": want, "err": fmt.Sprint(err)}))
				}
			}
		}
	}
	fmt.Printf("VERIF-SAMPLE: { us { ... on A { x } ... on A { x2 } } }\n")
	fmt.Printf("VERIF-BOUNDED: evaluations=%d distinct=%d failures=%d\n", evals, distinct, failures)
}
