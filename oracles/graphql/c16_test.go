package graphql_test

// Bounded stand-in for the whole-query clauses of C16: a query over nested lists in which chosen resolvers fail (plain
// error, client error, safe error, wrapped safe error, panic; in plain, expensive and batch fields; one or two failing at
// once) is run through the real Parse + PrepareQuery + Execute: the result is an error and no data; the error is one
// raised by a failing field; unless that error is client-safe it carries exactly that field's response path (aliases and
// list indices). Over a real connection (in-memory socket) an initially failing subscription is reported once, with the
// safe message verbatim or the fixed generic text and never the internal text, and is closed. Labelled bounded.

import (
	"context"
	"encoding/json"
	"errors"
	"fmt"
	"strings"
	"testing"
	"time"

	"github.com/samsarahq/thunder/batch"
	"github.com/samsarahq/thunder/graphql"
	"github.com/samsarahq/thunder/graphql/schemabuilder"
)

type C16Member struct {
	Id int64
}
type C16Group struct {
	Id      int64
	Members []*C16Member
}

const c16Secret = "internal-detail-do-not-leak"

type c16Failure struct {
	group, member int64
	kind          string // plain, client, safe, wrapped, panic
}

func (f c16Failure) err() error {
	switch f.kind {
	case "client":
		return graphql.NewClientError("bad request %d", f.member)
	case "safe":
		return graphql.NewSafeError("safe message %d", f.member)
	case "wrapped":
		return graphql.WrapAsSafeError(errors.New(c16Secret), "wrapped message %d", f.member)
	}
	return fmt.Errorf("%s %d/%d", c16Secret, f.group, f.member)
}

func c16Schema(mode string, failures []c16Failure) *graphql.Schema {
	sb := schemabuilder.NewSchema()
	q := sb.Query()
	group := sb.Object("C16Group", C16Group{})
	member := sb.Object("C16Member", C16Member{})
	_ = group
	// which (group, member) pairs fail is decided by the member's id: ids encode their group
	fails := func(m *C16Member) (error, bool) {
		for _, f := range failures {
			if m.Id == f.group*10+f.member {
				if f.kind == "panic" {
					panic(fmt.Sprintf("%s panic %d", c16Secret, m.Id))
				}
				return f.err(), true
			}
		}
		return nil, false
	}
	switch mode {
	case "plain":
		member.FieldFunc("score", func(m *C16Member) (int64, error) {
			if err, ok := fails(m); ok {
				return 0, err
			}
			return m.Id, nil
		})
	case "expensive":
		member.FieldFunc("score", func(ctx context.Context, m *C16Member) (int64, error) {
			if err, ok := fails(m); ok {
				return 0, err
			}
			return m.Id, nil
		}, schemabuilder.Expensive)
	case "batch":
		member.BatchFieldFunc("score", func(ctx context.Context, in map[batch.Index]*C16Member) (map[batch.Index]int64, error) {
			out := map[batch.Index]int64{}
			for k, m := range in {
				if err, ok := fails(m); ok {
					return nil, err
				}
				out[k] = m.Id
			}
			return out, nil
		})
	}
	q.FieldFunc("groups", func() []*C16Group {
		var gs []*C16Group
		for g := int64(0); g < 3; g++ {
			grp := &C16Group{Id: g}
			for m := int64(0); m < 3; m++ {
				grp.Members = append(grp.Members, &C16Member{Id: g*10 + m})
			}
			gs = append(gs, grp)
		}
		return gs
	})
	sb.Mutation().FieldFunc("noop", func() bool { return true })
	return sb.MustBuild()
}

const c16Query = `{ gs: groups { id people: members { id points: score } } }`

func TestVerifBounded_C16_Errors(t *testing.T) {
	evals, distinct, failures := 0, 0, 0
	fail := func(what, detail string) {
		failures++
		if failures <= 3 {
			b, _ := json.Marshal(map[string]interface{}{"case": what, "detail": detail})
			fmt.Printf("VERIF-FAIL-INPUT: %s\n", b)
			t.Errorf("%s: %s", what, detail)
		} else {
			t.Fail()
		}
	}
	kinds := []string{"plain", "client", "safe", "wrapped", "panic"}
	for _, mode := range []string{"plain", "expensive", "batch"} {
		for _, kind := range kinds {
			for _, sets := range [][]c16Failure{
				{{0, 0, kind}}, {{2, 1, kind}}, {{1, 2, kind}}, {{1, 0, kind}, {2, 2, kind}},
			} {
				distinct++
				evals++
				what := fmt.Sprintf("mode=%s failing=%v", mode, sets)
				schema := c16Schema(mode, sets)
				q, err := graphql.Parse(c16Query, nil)
				if err != nil {
					t.Fatal(err)
				}
				if err := graphql.PrepareQuery(context.Background(), schema.Query, q.SelectionSet); err != nil {
					t.Fatal(err)
				}
				data, err := graphql.NewExecutor(graphql.NewImmediateGoroutineScheduler()).Execute(batch.WithBatching(context.Background()), schema.Query, nil, q)
				if err == nil {
					fail(what, "no error although a resolver failed")
					continue
				}
				if data != nil {
					fail(what, "partial data returned together with the error")
				}
				msg := err.Error()
				// the error must be the one of a failing field, under that field's own response path
				matched := false
				for _, f := range sets {
					path := fmt.Sprintf("gs.%d.people.%d.points", f.group, f.member)
					switch kind {
					case "client", "safe", "wrapped":
						// client-safe: forwarded as is, no path, and never the wrapped internal text
						if msg == f.err().Error() {
							matched = true
						}
					case "plain":
						if msg == path+": "+f.err().Error() {
							matched = true
						}
					case "panic":
						if mode == "batch" {
							// a batch resolver fails for all of its sources at once: any path of a source of that invocation
							if strings.Contains(msg, "panic") && strings.HasPrefix(msg, "gs.") {
								matched = true
							}
						} else if strings.HasPrefix(msg, path+": ") && strings.Contains(msg, "panic") {
							matched = true
						}
					}
					if mode == "batch" && kind == "plain" && strings.HasSuffix(msg, ": "+f.err().Error()) && strings.HasPrefix(msg, "gs.") && strings.HasSuffix(strings.TrimSuffix(msg, ": "+f.err().Error()), ".points") {
						matched = true // the batch resolver's error is reported under the path of a source of the failing invocation
					}
				}
				if !matched {
					fail(what, "error is not that of a failing field under its own response path: "+trunc(msg, 200))
				}
				if (kind == "wrapped") && strings.Contains(msg, c16Secret) {
					fail(what, "the wrapped internal text is disclosed: "+trunc(msg, 200))
				}
			}
		}
	}
	// over a real connection: an initially failing subscription is reported once and closed
	for _, kind := range kinds {
		evals++
		what := "subscription failing initially with a " + kind + " error"
		schema := c16Schema("plain", []c16Failure{{1, 1, kind}})
		sock := &c02Socket{in: make(chan []byte, 16), out: make(chan map[string]interface{}, 64)}
		conn := graphql.CreateConnection(context.Background(), sock, schema, graphql.WithMinRerunInterval(time.Millisecond))
		done := make(chan struct{})
		go func() { conn.ServeJSONSocket(); close(done) }()
		b, _ := json.Marshal(map[string]interface{}{"id": "s", "type": "subscribe", "message": map[string]interface{}{"query": c16Query, "variables": nil}})
		sock.in <- b
		var msgs []map[string]interface{}
		// the answer may take a while on a loaded machine: wait for the first message, then for a quiet period
		select {
		case m := <-sock.out:
			msgs = append(msgs, m)
		case <-time.After(5 * time.Second):
		}
		deadline := time.After(300 * time.Millisecond)
	collect:
		for {
			select {
			case m := <-sock.out:
				msgs = append(msgs, m)
			case <-deadline:
				break collect
			}
		}
		// the id must be free again: subscribing anew must not be refused as a duplicate
		sock.in <- b
		var second []map[string]interface{}
		select {
		case m := <-sock.out:
			second = append(second, m)
		case <-time.After(5 * time.Second):
		}
		deadline = time.After(300 * time.Millisecond)
	collect2:
		for {
			select {
			case m := <-sock.out:
				second = append(second, m)
			case <-deadline:
				break collect2
			}
		}
		close(sock.in)
		select {
		case <-done:
		case <-time.After(3 * time.Second):
		}
		if len(msgs) != 1 || msgs[0]["type"] != "error" || msgs[0]["id"] != "s" {
			fail(what, fmt.Sprintf("expected exactly one error message for the subscription, got %v", msgs))
			continue
		}
		text := fmt.Sprint(msgs[0]["message"])
		want := "Internal server error"
		switch kind {
		case "client":
			want = "bad request 1"
		case "safe":
			want = "safe message 1"
		case "wrapped":
			want = "wrapped message 1"
		}
		if text != want {
			fail(what, fmt.Sprintf("client received %q, the property allows %q", text, want))
		}
		if strings.Contains(fmt.Sprint(msgs), c16Secret) {
			fail(what, "internal error text reached the client")
		}
		for _, m := range second {
			if strings.Contains(fmt.Sprint(m["message"]), "duplicate") {
				fail(what, "the failed subscription was not closed: its id is still taken")
			}
		}
	}
	fmt.Printf("VERIF-SAMPLE: { gs: groups { id people: members { id points: score } } } with member 1 of group 2 panicking in an expensive field\n")
	fmt.Printf("VERIF-BOUNDED: evaluations=%d distinct=%d failures=%d\n", evals, distinct, failures)
}

func trunc(s string, n int) string {
	if len(s) > n {
		return s[:n] + "..."
	}
	return s
}
