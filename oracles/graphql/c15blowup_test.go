package graphql_test

// Bounded stand-in for the time clause of C15: "parsing, validation and execution ... take time bounded by a small polynomial
// in the input size (repeated fragment spreads must not blow up exponentially)". Queries that nest fragment spreads - every
// fragment spreading the next one twice, or k times - are run through the real Parse, PrepareQuery and Execute under a
// generous wall-clock limit. A kilobyte of such a query costs 2^depth visits if a shared fragment is re-checked at every
// spread. Labelled bounded in the evidence.

import (
	"context"
	"fmt"
	"strings"
	"testing"
	"time"

	"github.com/samsarahq/thunder/graphql"
	"github.com/samsarahq/thunder/graphql/schemabuilder"
)

type C15Node struct{ X int64 }

type C15Either struct {
	schemabuilder.Union
	*C15Node
}

func TestVerifBounded_C15_Blowup(t *testing.T) {
	sb := schemabuilder.NewSchema()
	obj := sb.Object("C15Node", C15Node{})
	obj.FieldFunc("self", func(n *C15Node) *C15Node { return n })
	obj.FieldFunc("either", func(n *C15Node) *C15Either { return &C15Either{C15Node: n} })
	sb.Query().FieldFunc("t", func() *C15Node { return &C15Node{1} })
	sb.Mutation().FieldFunc("noop", func() bool { return true })
	schema := sb.MustBuild()
	const limit = 3 * time.Second
	evals, failures := 0, 0
	type shape struct {
		name   string
		build  func(depth int) string
		depths []int
	}
	shapes := []shape{
		{"each fragment spreads the next one twice", func(depth int) string {
			var b strings.Builder
			b.WriteString("{ t { ...F0 } }\n")
			for i := 0; i < depth; i++ {
				fmt.Fprintf(&b, "fragment F%d on C15Node { a%d: x ...F%d ...F%d }\n", i, i, i+1, i+1)
			}
			fmt.Fprintf(&b, "fragment F%d on C15Node { x }\n", depth)
			return b.String()
		}, []int{10, 30, 60, 200}},
		{"spreads below a field, five per level", func(depth int) string {
			var b strings.Builder
			b.WriteString("{ t { ...F0 } }\n")
			for i := 0; i < depth; i++ {
				fmt.Fprintf(&b, "fragment F%d on C15Node { self { ...F%d ...F%d ...F%d ...F%d ...F%d } }\n", i, i+1, i+1, i+1, i+1, i+1)
			}
			fmt.Fprintf(&b, "fragment F%d on C15Node { x }\n", depth)
			return b.String()
		}, []int{5, 15, 40}},
		{"spreads under a union parent", func(depth int) string {
			var b strings.Builder
			b.WriteString("{ t { either { __typename ...F0 } } }\n")
			for i := 0; i < depth; i++ {
				fmt.Fprintf(&b, "fragment F%d on C15Node { b%d: x either { ...F%d ...F%d } }\n", i, i, i+1, i+1)
			}
			fmt.Fprintf(&b, "fragment F%d on C15Node { x }\n", depth)
			return b.String()
		}, []int{8, 16, 22}},
		{"spreads at the root, beside a field with a selection", func(depth int) string {
			var b strings.Builder
			b.WriteString("{ ...F0 }\n")
			for i := 0; i < depth; i++ {
				fmt.Fprintf(&b, "fragment F%d on Query { t { x } ...F%d ...F%d }\n", i, i+1, i+1)
			}
			fmt.Fprintf(&b, "fragment F%d on Query { t { x } }\n", depth)
			return b.String()
		}, []int{10, 30, 100}},
		{"the same fragment spread k times in one selection", func(depth int) string {
			var b strings.Builder
			b.WriteString("{ t {")
			for i := 0; i < depth*20; i++ {
				b.WriteString(" ...F0")
			}
			b.WriteString(" } }\nfragment F0 on C15Node { x self { x } }\n")
			return b.String()
		}, []int{10, 100}},
	}
	for _, sh := range shapes {
		for _, depth := range sh.depths {
			evals++
			text := sh.build(depth)
			done := make(chan string, 1)
			go func() {
				start := time.Now()
				q, err := graphql.Parse(text, nil)
				if err != nil {
					done <- "" // rejected: fine
					return
				}
				if err := graphql.PrepareQuery(context.Background(), schema.Query, q.SelectionSet); err != nil {
					done <- ""
					return
				}
				if _, err := graphql.NewExecutor(graphql.NewImmediateGoroutineScheduler()).Execute(context.Background(), schema.Query, nil, q); err != nil {
					done <- ""
					return
				}
				done <- fmt.Sprint(time.Since(start))
			}()
			select {
			case <-done:
			case <-time.After(limit):
				failures++
				detail := fmt.Sprintf("%s, depth %d: a query of %d bytes is not answered within %v", sh.name, depth, len(text), limit)
				if failures <= 3 {
					fmt.Printf("VERIF-FAIL-INPUT: {\"shape\": %q, \"depth\": %d, \"bytes\": %d, \"detail\": %q}\n", sh.name, depth, len(text), detail)
				}
				t.Error(detail)
				// deeper queries of this shape would take longer still
				goto nextShape
			}
		}
	nextShape:
	}
	fmt.Printf("VERIF-SAMPLE: fragment Fi on T { ...Fi+1 ...Fi+1 } nested 200 deep (10 kB)\n")
	fmt.Printf("VERIF-BOUNDED: evaluations=%d distinct=%d failures=%d\n", evals, evals, failures)
}
