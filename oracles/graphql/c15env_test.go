package graphql_test

// Bounded stand-in for the envelope clause of C15 ("whatever bytes a client sends as ... websocket envelope"): a family of
// hostile envelopes - unknown and missing types, ids of the wrong kind, messages that are null, scalars, arrays or objects with
// members of the wrong kind, variables and extensions of the wrong kind, oversized nesting - is sent over a real connection
// (in-memory socket), each on a connection of its own. Nothing may panic (the read loop runs under a recover that turns a
// panic into a failure) or hang: afterwards the connection either still answers a healthy subscription or has been ended
// (an envelope that cannot be decoded ends its own connection).
// Labelled bounded.

import (
	"context"
	"encoding/json"
	"fmt"
	"strings"
	"testing"
	"time"

	"github.com/samsarahq/thunder/graphql"
	"github.com/samsarahq/thunder/graphql/schemabuilder"
)

func TestVerifBounded_C15_Envelopes(t *testing.T) {
	sb := schemabuilder.NewSchema()
	sb.Query().FieldFunc("ok", func() string { return "fine" })
	sb.Query().FieldFunc("echo", func(args struct{ S string }) string { return args.S })
	sb.Mutation().FieldFunc("noop", func() bool { return true })
	schema := sb.MustBuild()
	deep := strings.Repeat("[", 2000) + strings.Repeat("]", 2000)
	hostile := []string{
		`{}`, `{"type": "subscribe"}`, `{"id": "a"}`, `{"id": 7, "type": "subscribe", "message": {"query": "{ ok }"}}`,
		`{"id": "a", "type": 7}`, `{"id": "a", "type": "nonsense", "message": {}}`, `{"id": "a", "type": "subscribe", "message": null}`,
		`{"id": "a", "type": "subscribe", "message": "{ ok }"}`, `{"id": "a", "type": "subscribe", "message": 12}`, `{"id": "a", "type": "subscribe", "message": []}`,
		`{"id": "a", "type": "subscribe", "message": {"query": 12}}`, `{"id": "a", "type": "subscribe", "message": {"query": null}}`,
		`{"id": "a", "type": "subscribe", "message": {"query": "{ ok }", "variables": "x"}}`, `{"id": "a", "type": "subscribe", "message": {"query": "{ ok }", "variables": [1]}}`,
		`{"id": "a", "type": "subscribe", "message": {"query": "query($s: String!) { echo(s: $s) }", "variables": {"s": {"deep": ` + deep + `}}}}`,
		`{"id": "a", "type": "subscribe", "message": {"query": "query($s: String!) { echo(s: $s) }", "variables": {"s": null}}}`,
		`{"id": "a", "type": "subscribe", "message": {"query": "{ ok }"}, "extensions": 5}`, `{"id": "a", "type": "subscribe", "message": {"query": "{ ok }"}, "extensions": {"x": ` + deep + `}}`,
		`{"id": "a", "type": "mutate", "message": null}`, `{"id": "a", "type": "mutate", "message": {"query": "{ ok }"}}`, `{"id": "a", "type": "mutate", "message": {"query": "mutation { noop { x } }"}}`,
		`{"id": "a", "type": "mutate", "message": {"query": "mutation { noop }", "variables": 3}}`, `{"id": "", "type": "unsubscribe"}`, `{"id": "never-subscribed", "type": "unsubscribe"}`,
		`{"id": "a", "type": "unsubscribe", "message": {"query": 1}}`, `{"id": "a", "type": "echo", "message": ` + deep + `}`, `{"type": "echo"}`, `{"id": null, "type": null, "message": null}`,
		`{"id": "a", "type": "subscribe", "message": {"query": "` + strings.Repeat("{ ok ", 500) + `"}}`, `{"id": "a", "type": "subscribe", "message": {"query": "\u0000￿"}}`,
		`{"id": "a", "type": "SUBSCRIBE", "message": {"query": "{ ok }"}}`, `{"id": "a", "type": "subscribe", "message": {"Query": "{ ok }", "query": "{ nope }"}}`,
	}
	evals, failures := 0, 0
	fail := func(what, detail string) {
		failures++
		if failures <= 3 {
			b, _ := json.Marshal(map[string]interface{}{"envelope": trunc(what, 300), "detail": detail})
			fmt.Printf("VERIF-FAIL-INPUT: %s\n", b)
			t.Errorf("%s: %s", trunc(what, 200), detail)
		} else {
			t.Fail()
		}
	}
	for _, env := range hostile {
		if failures >= 3 {
			break
		}
		evals++
		sock := &c02Socket{in: make(chan []byte, 64), out: make(chan map[string]interface{}, 4096)}
		conn := graphql.CreateConnection(context.Background(), sock, schema, graphql.WithMinRerunInterval(time.Millisecond))
		done := make(chan interface{}, 1)
		go func() {
			defer func() { done <- recover() }()
			conn.ServeJSONSocket()
		}()
		sock.in <- []byte(env)
		// afterwards either the connection still serves a healthy subscription, or it was ended (an envelope that cannot be
		// decoded ends its own connection); it must not panic and must not hang
		b, _ := json.Marshal(map[string]interface{}{"id": "probe", "type": "subscribe", "message": map[string]interface{}{"query": "{ ok }", "variables": map[string]interface{}{}}})
		sock.in <- b
		deadline := time.After(5 * time.Second)
		ended := false
	wait:
		for {
			select {
			case p := <-done:
				ended = true
				if p != nil {
					fail(env, fmt.Sprintf("the read loop panicked: %v", p))
				}
				break wait
			case m := <-sock.out:
				if m["id"] == "probe" && m["type"] == "update" {
					break wait
				}
			case <-deadline:
				fail(env, "neither answered nor ended: a healthy subscription sent afterwards gets no update within 5s")
				break wait
			}
		}
		if !ended {
			close(sock.in)
			select {
			case p := <-done:
				if p != nil {
					fail(env, fmt.Sprintf("the read loop panicked on close: %v", p))
				}
			case <-time.After(3 * time.Second):
				fail(env, "the connection does not shut down")
			}
		}
	}
	fmt.Printf("VERIF-SAMPLE: {\"id\": \"a\", \"type\": \"subscribe\", \"message\": null} followed by a healthy subscribe\n")
	fmt.Printf("VERIF-BOUNDED: evaluations=%d distinct=%d failures=%d\n", evals, evals, failures)
}
