package graphql_test

// Bounded stand-in for C01 on the reactive cache of expensive fields (getWorkCacheKey): inside a rerunner - the way the
// HTTP and websocket handlers run every query - the subtree of an expensive field is cached under a key. Two occurrences
// of an expensive field must never share a cached subtree unless they are the same selection on the same source: the
// same object reached along two paths, with the same field under the same alias but different arguments or different
// sub-selections, under different aliases, on different sources with equal contents. Each query is executed inside a
// rerunner and compared with the plain execution (no cache). Labelled bounded.

import (
	"context"
	"encoding/json"
	"fmt"
	"sync"
	"testing"
	"time"

	"github.com/samsarahq/thunder/graphql"
	"github.com/samsarahq/thunder/graphql/schemabuilder"
	"github.com/samsarahq/thunder/reactive"
)

type C01cNode struct {
	Id int64
}

func c01cRun(schema *graphql.Schema, query string, inRerunner bool) (string, error) {
	q, err := graphql.Parse(query, nil)
	if err != nil {
		return "", err
	}
	if err := graphql.PrepareQuery(context.Background(), schema.Query, q.SelectionSet); err != nil {
		return "", err
	}
	e := graphql.NewExecutor(graphql.NewImmediateGoroutineScheduler())
	var val interface{}
	if !inRerunner {
		val, err = e.Execute(context.Background(), schema.Query, nil, q)
	} else {
		done := make(chan struct{})
		var once sync.Once
		runner := reactive.NewRerunner(context.Background(), func(ctx context.Context) (interface{}, error) {
			defer once.Do(func() { close(done) })
			val, err = e.Execute(ctx, schema.Query, nil, q)
			return nil, nil
		}, time.Hour, false)
		select {
		case <-done:
		case <-time.After(10 * time.Second):
			runner.Stop()
			return "", fmt.Errorf("not answered within 10s inside a rerunner")
		}
		runner.Stop()
	}
	if err != nil {
		return "", err
	}
	b, _ := json.Marshal(val)
	return string(b), nil
}

func TestVerifBounded_C01_CacheKey(t *testing.T) {
	shared := &C01cNode{Id: 7}
	sb := schemabuilder.NewSchema()
	q := sb.Query()
	q.FieldFunc("left", func() *C01cNode { return shared })
	q.FieldFunc("right", func() *C01cNode { return shared })
	q.FieldFunc("twin", func() *C01cNode { return &C01cNode{Id: 7} })
	q.FieldFunc("other", func() *C01cNode { return &C01cNode{Id: 9} })
	q.FieldFunc("all", func() []*C01cNode { return []*C01cNode{shared, {Id: 9}, shared} })
	node := sb.Object("C01cNode", C01cNode{})
	node.FieldFunc("calc", func(ctx context.Context, n *C01cNode, args struct{ Mul int64 }) int64 { return n.Id * args.Mul }, schemabuilder.Expensive)
	node.FieldFunc("self", func(ctx context.Context, n *C01cNode) *C01cNode { return n }, schemabuilder.Expensive)
	node.FieldFunc("peers", func(ctx context.Context, n *C01cNode) []*C01cNode { return []*C01cNode{n, {Id: n.Id + 1}} }, schemabuilder.Expensive)
	sb.Mutation().FieldFunc("noop", func() bool { return true })
	schema := sb.MustBuild()
	queries := []string{
		`{ left { v: calc(mul: 2) } right { v: calc(mul: 3) } }`,
		`{ left { s: self { id } } right { s: self { plain: calc(mul: 1) } } }`,
		`{ left { a: calc(mul: 2) b: calc(mul: 5) } }`,
		`{ left { v: calc(mul: 2) } twin { v: calc(mul: 4) } other { v: calc(mul: 2) } }`,
		`{ all { v: calc(mul: 2) } left { v: calc(mul: 6) } }`,
		`{ left { p: peers { id } } right { p: peers { id v: calc(mul: 10) } } }`,
		`{ left { s: self { s: self { v: calc(mul: 2) } } } right { s: self { s: self { v: calc(mul: 3) } } } }`,
		`{ left { ...A } right { ...B } } fragment A on C01cNode { v: calc(mul: 2) s: self { id } } fragment B on C01cNode { v: calc(mul: 8) s: self { w: calc(mul: 1) } }`,
		`{ all { s: self { id } } right { s: self { v: calc(mul: 3) } } }`,
	}
	evals, failures := 0, 0
	for _, query := range queries {
		want, err := c01cRun(schema, query, false)
		if err != nil {
			t.Fatalf("%s: %v", query, err)
		}
		for rep := 0; rep < 3; rep++ {
			evals++
			got, err := c01cRun(schema, query, true)
			detail := ""
			if err != nil {
				detail = "inside a rerunner: " + err.Error()
			} else if got != want {
				detail = fmt.Sprintf("inside a rerunner (cached expensive fields) %s, plain execution %s", got, want)
			}
			if detail != "" {
				failures++
				if failures <= 3 {
					b, _ := json.Marshal(map[string]interface{}{"query": query, "detail": detail})
					fmt.Printf("VERIF-FAIL-INPUT: %s\n", b)
					t.Errorf("%s: %s", query, detail)
				} else {
					t.Fail()
				}
				break
			}
		}
	}
	fmt.Printf("VERIF-SAMPLE: { left { v: calc(mul: 2) } right { v: calc(mul: 3) } } where left and right return the same object, inside a rerunner\n")
	fmt.Printf("VERIF-BOUNDED: evaluations=%d distinct=%d failures=%d\n", evals, len(queries), failures)
}
