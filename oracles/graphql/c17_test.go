package graphql

import (
	"context"
	"encoding/json"
	"fmt"
	"os"
	"sync"
	"sync/atomic"
	"testing"
	"time"

	"github.com/gorilla/websocket"
	"github.com/samsarahq/thunder/reactive"
)

type verifSocket struct {
	in      chan inEnvelope
	mu      sync.Mutex
	results map[string]int // "result" envelopes written per id = finished mutations
}

func (s *verifSocket) ReadJSON(v interface{}) error {
	e, ok := <-s.in
	if !ok {
		return &websocket.CloseError{Code: websocket.CloseNormalClosure}
	}
	*(v.(*inEnvelope)) = e
	return nil
}
func (s *verifSocket) WriteJSON(v interface{}) error {
	if e, ok := v.(outEnvelope); ok && e.Type == "result" {
		s.mu.Lock()
		s.results[e.ID]++
		s.mu.Unlock()
	}
	return nil
}
func (s *verifSocket) Close() error                   { return nil }

type verifSubLogger struct {
	mu         sync.Mutex
	sub, unsub map[string]int
}

func (l *verifSubLogger) Subscribe(ctx context.Context, id string, tags map[string]string) {
	l.mu.Lock()
	l.sub[id]++
	l.mu.Unlock()
}
func (l *verifSubLogger) Unsubscribe(ctx context.Context, id string) {
	l.mu.Lock()
	l.unsub[id]++
	l.mu.Unlock()
}

// Property-level oracle for C17 on one message sequence: after the connection has closed, (a) the subscription
// logger saw exactly one Unsubscribe for every Subscribe, and (b) no resolver of the connection runs again when
// the data changes.
func verifC17Run(msgs []string) (bool, string) {
	old := reactive.WriteThenReadDelay
	reactive.WriteThenReadDelay = time.Millisecond
	defer func() { reactive.WriteThenReadDelay = old }()
	var runs int64
	res := reactive.NewResource()
	noArgs := func(json interface{}) (interface{}, error) { return nil, nil }
	schema := &Schema{
		Query: &Object{Name: "Query", Fields: map[string]*Field{"f": {
			Resolve: func(ctx context.Context, source, args interface{}, s *SelectionSet) (interface{}, error) {
				atomic.AddInt64(&runs, 1)
				reactive.AddDependency(ctx, res, nil)
				return 1, nil
			}, Type: &Scalar{Type: "int"}, ParseArguments: noArgs}}},
		Mutation: &Object{Name: "Mutation", Fields: map[string]*Field{"m": {
			Resolve: func(ctx context.Context, source, args interface{}, s *SelectionSet) (interface{}, error) { return 1, nil },
			Type:    &Scalar{Type: "int"}, ParseArguments: noArgs}}},
	}
	sock := &verifSocket{in: make(chan inEnvelope), results: map[string]int{}}
	logger := &verifSubLogger{sub: map[string]int{}, unsub: map[string]int{}}
	c := CreateConnection(context.Background(), sock, schema, WithSubscriptionLogger(logger), WithMinRerunInterval(time.Millisecond))
	done := make(chan struct{})
	go func() { c.ServeJSONSocket(); close(done) }()
	for _, m := range msgs {
		var kind, id string
		fmt.Sscanf(m, "%s %s", &kind, &id)
		var body []byte
		switch kind {
		case "subscribe":
			body, _ = json.Marshal(subscribeMessage{Query: "{ f }"})
		case "mutate":
			body, _ = json.Marshal(mutateMessage{Query: "mutation { m }"})
		}
		sock.in <- inEnvelope{ID: id, Type: kind, Message: body}
		time.Sleep(15 * time.Millisecond)
	}
	// (c) while the connection is open a subscription is closed only by its own unsubscribe (the resolver of this schema never
	// fails): the number of Unsubscribe events per id so far is the number of explicit unsubscribes of a live subscription
	live := map[string]bool{}
	wantClosed := map[string]int{}
	for _, m := range msgs {
		var kind, id string
		fmt.Sscanf(m, "%s %s", &kind, &id)
		switch kind {
		case "subscribe":
			live[id] = true // a duplicate is rejected and leaves the live one alone
		case "unsubscribe":
			if live[id] {
				wantClosed[id]++
				delete(live, id)
			}
		}
	}
	// (a finished mutation is closed by a goroutine of its own: give the bookkeeping a moment to settle before judging)
	midProblem := ""
	for attempt := 0; attempt < 200; attempt++ {
		logger.mu.Lock()
		sock.mu.Lock()
		midProblem = ""
		for id := range logger.sub {
			if got := logger.unsub[id] - sock.results[id]; got != wantClosed[id] {
				midProblem = fmt.Sprintf("with the connection still open, subscription %s was closed %d time(s); it was unsubscribed %d time(s)", id, got, wantClosed[id])
			}
		}
		sock.mu.Unlock()
		logger.mu.Unlock()
		if midProblem == "" {
			break
		}
		time.Sleep(10 * time.Millisecond)
	}
	close(sock.in)
	<-done
	if midProblem != "" {
		return true, midProblem
	}
	time.Sleep(30 * time.Millisecond)
	before := atomic.LoadInt64(&runs)
	res.Strobe()
	time.Sleep(80 * time.Millisecond)
	after := atomic.LoadInt64(&runs)
	logger.mu.Lock()
	defer logger.mu.Unlock()
	// thunder also logs one Unsubscribe when a mutation finishes (it shares the id table); the property speaks of
	// Subscribe/Unsubscribe pairs, so those are discounted: one per "result" envelope written for the id.
	sock.mu.Lock()
	defer sock.mu.Unlock()
	for id, n := range logger.sub {
		if logger.unsub[id]-sock.results[id] != n {
			return true, fmt.Sprintf("logger saw %d Subscribe but %d Unsubscribe (%d of them for finished mutations) for id %s", n, logger.unsub[id], sock.results[id], id)
		}
	}
	if after != before {
		return true, fmt.Sprintf("a resolver ran %d more time(s) after the connection closed", after-before)
	}
	return false, "agrees"
}

// every message sequence of length <= 2 (thorough: 3) over {subscribe a, subscribe b, mutate a, unsubscribe a}
func TestVerifSearch_C17(t *testing.T) {
	alphabet := []string{"subscribe a", "mutate a", "unsubscribe a", "subscribe b"}
	maxLen := 2
	if os.Getenv("VERIF_TIER") == "thorough" {
		maxLen = 3
	}
	evals, distinct, failures := 0, 0, 0
	var rec func(cur []string, want int)
	rec = func(cur []string, want int) {
		if len(cur) == want {
			evals++
			if want > 0 {
				distinct++
			}
			if bad, detail := verifC17Run(cur); bad {
				failures++
				if failures == 1 {
					fmt.Printf("VERIF-FAIL-INPUT: %s\n", verifJSON(map[string]interface{}{"messages": cur, "detail": detail}))
				}
			}
			return
		}
		for _, a := range alphabet {
			rec(append(append([]string{}, cur...), a), want)
		}
	}
	for n := 0; n <= maxLen; n++ {
		rec(nil, n)
	}
	fmt.Printf("VERIF-SAMPLE: [subscribe a, mutate a] then close\n")
	fmt.Printf("VERIF-BOUNDED: evaluations=%d distinct=%d failures=%d\n", evals, distinct, failures)
}
