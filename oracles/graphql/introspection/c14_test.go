package introspection

// Bounded stand-in for the part of C14 that no contract reaches (schemabuilder's reflection-driven type construction):
// the advertised schema (introspection JSON, decoded into an independent model below) is compared with what
// PrepareQuery accepts and with the JSON shape of what Execute returns, over a generated family of selection trees.
// Labelled bounded in the evidence; never counted as proved.

import (
	"context"
	"encoding/json"
	"errors"
	"fmt"
	"sort"
	"strings"
	"testing"
	"time"

	"github.com/samsarahq/thunder/graphql"
	"github.com/samsarahq/thunder/graphql/schemabuilder"
)

// ---------------------------------------------------------------- the schema under test (Go type shapes)

type c14Enum int32
type c14Name string
type C14Leaf struct {
	Id    int64
	Label string
}
type C14Other struct {
	Val   float64
	Flags []bool
}
type c14Union struct {
	schemabuilder.Union
	*C14Leaf
	*C14Other
}
type c14Node struct {
	Name     string
	Count    int64
	Small    int8
	Unsigned uint32
	Ratio    float64
	Flag     bool
	Tag      c14Name
	Opt      *string
	OptNil   *string
	Kind     c14Enum
	Nums     []int32
	Leaves   []*C14Leaf
	Inline   C14Leaf
	Ptr      *C14Leaf
	NilPtr   *C14Leaf
	When     time.Time
	Raw      []byte
}

func c14Schema() *graphql.Schema {
	s := schemabuilder.NewSchema()
	s.Enum(c14Enum(0), map[string]interface{}{"ZERO": c14Enum(0), "ONE": c14Enum(1), "TWO": c14Enum(2)})
	str := "opt"
	leafA, leafB := &C14Leaf{Id: 1, Label: "a"}, &C14Leaf{Id: 2, Label: "b"}
	node := func() *c14Node {
		return &c14Node{Name: "n", Count: 7, Small: -3, Unsigned: 9, Ratio: 1.5, Flag: true, Tag: "t", Opt: &str, Kind: c14Enum(2),
			Nums: []int32{1, 2, 3}, Leaves: []*C14Leaf{leafA, leafB}, Inline: C14Leaf{Id: 3, Label: "c"}, Ptr: leafA,
			When: time.Unix(1500000000, 0).UTC(), Raw: []byte("xy")}
	}
	q := s.Query()
	q.FieldFunc("node", func() *c14Node { return node() })
	q.FieldFunc("nodeValue", func() c14Node { return *node() })
	q.FieldFunc("nodeNonNull", func() *c14Node { return node() }, schemabuilder.NonNullable)
	q.FieldFunc("nodeNil", func() *c14Node { return nil })
	q.FieldFunc("nodes", func(ctx context.Context) ([]*c14Node, error) { return []*c14Node{node(), node()}, nil })
	q.FieldFunc("nodeValues", func() []c14Node { return []c14Node{*node()} })
	q.FieldFunc("emptyNodes", func() []*c14Node { return nil })
	q.FieldFunc("scalarInt", func() int64 { return 42 })
	q.FieldFunc("scalarStrPtr", func() *string { return nil })
	q.FieldFunc("scalarErr", func() (string, error) { return "ok", nil })
	q.FieldFunc("enumValue", func() c14Enum { return c14Enum(1) })
	q.FieldFunc("enumList", func() []c14Enum { return []c14Enum{0, 2} })
	q.FieldFunc("withArgs", func(args struct {
		X int64
		S *string
	}) *C14Leaf {
		return &C14Leaf{Id: args.X, Label: "arg"}
	})
	q.FieldFunc("union", func() *c14Union { return &c14Union{C14Leaf: leafA} })
	q.FieldFunc("unionNil", func() *c14Union { return nil })
	q.FieldFunc("unions", func() []*c14Union { return []*c14Union{{C14Leaf: leafB}, {C14Other: &C14Other{Val: 2.5, Flags: []bool{true}}}} })
	q.FieldFunc("noReturn", func() {})

	obj := s.Object("c14Node", c14Node{})
	obj.FieldFunc("computed", func(n *c14Node) string { return n.Name + "!" })
	obj.FieldFunc("computedPtr", func(ctx context.Context, n c14Node) (*C14Leaf, error) { return n.Ptr, nil })
	obj.FieldFunc("computedList", func(n *c14Node, args struct{ N int64 }) []C14Leaf {
		out := []C14Leaf{}
		for i := int64(0); i < args.N; i++ {
			out = append(out, C14Leaf{Id: i})
		}
		return out
	})
	obj.FieldFunc("failing", func(n *c14Node) (*C14Leaf, error) { return nil, errors.New("resolver says no") })
	leaf := s.Object("C14Leaf", C14Leaf{})
	leaf.FieldFunc("twice", func(l *C14Leaf) int64 { return 2 * l.Id })
	s.Object("C14Other", C14Other{})
	m := s.Mutation()
	m.FieldFunc("noop", func() bool { return true })
	built := s.MustBuild()
	return built
}

// arguments the generated queries pass to the fields that take some
var c14Args = map[string]string{"withArgs": "(x: 5)", "computedList": "(n: 2)"}

// ---------------------------------------------------------------- independent model of the advertised schema

type c14TypeRef struct {
	Kind   string      `json:"kind"`
	Name   *string     `json:"name"`
	OfType *c14TypeRef `json:"ofType"`
}
type c14Field struct {
	Name string     `json:"name"`
	Type c14TypeRef `json:"type"`
}
type c14Type struct {
	Kind          string                `json:"kind"`
	Name          string                `json:"name"`
	Fields        []c14Field            `json:"fields"`
	EnumValues    []struct{ Name string } `json:"enumValues"`
	PossibleTypes []c14TypeRef          `json:"possibleTypes"`
}
type c14Advertised struct {
	Schema struct {
		QueryType struct{ Name string } `json:"queryType"`
		Types     []c14Type             `json:"types"`
	} `json:"__schema"`
}

func c14Advertise(schema *graphql.Schema) (map[string]*c14Type, string, error) {
	withIntro := &graphql.Schema{Query: schema.Query, Mutation: schema.Mutation}
	// AddIntrospectionToSchema mutates the query object's field map: work on a copy of the root object
	qo := *schema.Query.(*graphql.Object)
	qo.Fields = map[string]*graphql.Field{}
	for k, v := range schema.Query.(*graphql.Object).Fields {
		qo.Fields[k] = v
	}
	withIntro.Query = &qo
	AddIntrospectionToSchema(withIntro)
	raw, err := RunIntrospectionQuery(withIntro)
	if err != nil {
		return nil, "", err
	}
	var adv c14Advertised
	if err := json.Unmarshal(raw, &adv); err != nil {
		return nil, "", err
	}
	types := map[string]*c14Type{}
	for i := range adv.Schema.Types {
		t := &adv.Schema.Types[i]
		types[t.Name] = t
	}
	return types, adv.Schema.QueryType.Name, nil
}

// ---------------------------------------------------------------- selection trees

type c14Sel struct {
	alias, name, args string
	sub               *c14Set // nil = no sub-selection
}
type c14Frag struct {
	on  string
	set *c14Set
}
type c14Set struct {
	sels  []*c14Sel
	frags []*c14Frag
}

func (s *c14Set) text() string {
	if s == nil {
		return ""
	}
	var b strings.Builder
	b.WriteString("{ ")
	for _, x := range s.sels {
		if x.alias != x.name {
			b.WriteString(x.alias + ": ")
		}
		b.WriteString(x.name + x.args + " " + x.sub.text())
	}
	for _, f := range s.frags {
		b.WriteString("... on " + f.on + " " + f.set.text())
	}
	b.WriteString("} ")
	return b.String()
}

func c14Named(r *c14TypeRef) *c14TypeRef {
	for r.OfType != nil && (r.Kind == "LIST" || r.Kind == "NON_NULL") {
		r = r.OfType
	}
	return r
}

// full selection of a type to the given depth: every advertised field (with an alias on every second one), __typename, and
// for unions one fragment per advertised member.
func c14Full(types map[string]*c14Type, name string, depth int, skip map[string]bool) *c14Set {
	t := types[name]
	if t == nil {
		return nil
	}
	switch t.Kind {
	case "OBJECT":
		set := &c14Set{sels: []*c14Sel{{alias: "__typename", name: "__typename"}}}
		for i, f := range t.Fields {
			if skip[f.Name] || strings.HasPrefix(f.Name, "__") {
				continue
			}
			inner := c14Named(&f.Type)
			sel := &c14Sel{alias: f.Name, name: f.Name, args: c14Args[f.Name]}
			if i%2 == 1 {
				sel.alias = "a" + fmt.Sprint(i)
			}
			if k := types[*inner.Name].Kind; k == "OBJECT" || k == "UNION" {
				if depth == 0 {
					continue
				}
				sel.sub = c14Full(types, *inner.Name, depth-1, skip)
			}
			set.sels = append(set.sels, sel)
		}
		return set
	case "UNION":
		set := &c14Set{sels: []*c14Sel{{alias: "__typename", name: "__typename"}}}
		for _, m := range t.PossibleTypes {
			sub := c14Full(types, *m.Name, depth, skip)
			// __typename of a member is contributed by the union-level selection
			sub.sels = sub.sels[1:]
			set.frags = append(set.frags, &c14Frag{on: *m.Name, set: sub})
		}
		return set
	}
	return nil
}

// every selection reachable in a set, with the advertised type of the object it is selected on
type c14Site struct {
	set    *c14Set
	idx    int
	parent string
}

func c14Sites(types map[string]*c14Type, set *c14Set, typeName string, out *[]c14Site) {
	if set == nil {
		return
	}
	t := types[typeName]
	for i, s := range set.sels {
		*out = append(*out, c14Site{set, i, typeName})
		if s.sub != nil && t != nil && t.Kind == "OBJECT" {
			for _, f := range t.Fields {
				if f.Name == s.name {
					c14Sites(types, s.sub, *c14Named(&f.Type).Name, out)
				}
			}
		}
	}
	for _, f := range set.frags {
		c14Sites(types, f.set, f.on, out)
	}
}

func c14Clone(s *c14Set) *c14Set {
	if s == nil {
		return nil
	}
	n := &c14Set{}
	for _, x := range s.sels {
		c := *x
		c.sub = c14Clone(x.sub)
		n.sels = append(n.sels, &c)
	}
	for _, f := range s.frags {
		n.frags = append(n.frags, &c14Frag{on: f.on, set: c14Clone(f.set)})
	}
	return n
}

// ---------------------------------------------------------------- conformance of a response to the advertised types

func c14Conform(types map[string]*c14Type, v interface{}, r *c14TypeRef, set *c14Set, path string, inList bool) error {
	if r.Kind == "NON_NULL" {
		if v == nil {
			if inList {
				return nil // list entries are always marked non-null by thunder: excepted by the property
			}
			return fmt.Errorf("%s: null where %s is advertised", path, "NON_NULL")
		}
		return c14Conform(types, v, r.OfType, set, path, false)
	}
	if v == nil {
		return nil
	}
	if r.Kind == "LIST" {
		l, ok := v.([]interface{})
		if !ok {
			return fmt.Errorf("%s: %T where a list is advertised", path, v)
		}
		for i, e := range l {
			if err := c14Conform(types, e, r.OfType, set, fmt.Sprintf("%s[%d]", path, i), true); err != nil {
				return err
			}
		}
		return nil
	}
	t := types[*r.Name]
	if t == nil {
		return fmt.Errorf("%s: type %s is not advertised", path, *r.Name)
	}
	switch t.Kind {
	case "SCALAR":
		switch strings.ToLower(t.Name) {
		case "string", "id":
			if _, ok := v.(string); !ok {
				return fmt.Errorf("%s: %T where scalar %s is advertised", path, v, t.Name)
			}
		case "bool", "boolean":
			if _, ok := v.(bool); !ok {
				return fmt.Errorf("%s: %T where scalar %s is advertised", path, v, t.Name)
			}
		case "int", "int8", "int16", "int32", "int64", "uint", "uint8", "uint16", "uint32", "uint64", "float", "float32", "float64":
			f, ok := v.(float64)
			if !ok {
				return fmt.Errorf("%s: %T where scalar %s is advertised", path, v, t.Name)
			}
			if strings.Contains(strings.ToLower(t.Name), "int") && f != float64(int64(f)) {
				return fmt.Errorf("%s: %v where integer scalar %s is advertised", path, f, t.Name)
			}
		}
		if _, isMap := v.(map[string]interface{}); isMap && strings.ToLower(t.Name) != "map" {
			return fmt.Errorf("%s: object where scalar %s is advertised", path, t.Name)
		}
		return nil
	case "ENUM":
		s, ok := v.(string)
		if !ok {
			return fmt.Errorf("%s: %T where enum %s is advertised", path, v, t.Name)
		}
		for _, ev := range t.EnumValues {
			if ev.Name == s {
				return nil
			}
		}
		return fmt.Errorf("%s: %q is not an advertised value of enum %s", path, s, t.Name)
	case "OBJECT", "UNION":
		m, ok := v.(map[string]interface{})
		if !ok {
			return fmt.Errorf("%s: %T where %s %s is advertised", path, v, t.Kind, t.Name)
		}
		obj := t
		want := map[string]*c14Sel{}
		for _, s := range set.sels {
			want[s.alias] = s
		}
		if t.Kind == "UNION" {
			tn, ok := m["__typename"].(string)
			if !ok {
				return fmt.Errorf("%s: union value without __typename", path)
			}
			member := false
			for _, p := range t.PossibleTypes {
				member = member || *p.Name == tn
			}
			if !member {
				return fmt.Errorf("%s: __typename %q is not an advertised member of union %s", path, tn, t.Name)
			}
			obj = types[tn]
			for _, f := range set.frags {
				if f.on == tn {
					for _, s := range f.set.sels {
						want[s.alias] = s
					}
				}
			}
		}
		for k := range m {
			if want[k] == nil {
				return fmt.Errorf("%s: key %q was not selected", path, k)
			}
		}
		for alias, s := range want {
			val, present := m[alias]
			if !present {
				return fmt.Errorf("%s: selected key %q is missing", path, alias)
			}
			if s.name == "__typename" {
				if val != obj.Name {
					return fmt.Errorf("%s.__typename: %v, advertised type is %s", path, val, obj.Name)
				}
				continue
			}
			var fr *c14TypeRef
			for i := range obj.Fields {
				if obj.Fields[i].Name == s.name {
					fr = &obj.Fields[i].Type
				}
			}
			if fr == nil {
				return fmt.Errorf("%s.%s: not an advertised field of %s", path, s.name, obj.Name)
			}
			if err := c14Conform(types, val, fr, s.sub, path+"."+alias, false); err != nil {
				return err
			}
		}
		return nil
	}
	return fmt.Errorf("%s: unexpected advertised kind %s", path, t.Kind)
}

// ---------------------------------------------------------------- the harness

func c14Run(schema *graphql.Schema, text string) (interface{}, error, error) {
	q, err := graphql.Parse(text, map[string]interface{}{})
	if err != nil {
		return nil, err, nil
	}
	if err := graphql.PrepareQuery(context.Background(), schema.Query, q.SelectionSet); err != nil {
		return nil, err, nil
	}
	v, err := graphql.NewExecutor(graphql.NewImmediateGoroutineScheduler()).Execute(context.Background(), schema.Query, nil, q)
	if err != nil {
		return nil, nil, err
	}
	raw, err := json.Marshal(v)
	if err != nil {
		return nil, nil, fmt.Errorf("response does not marshal: %v", err)
	}
	var out interface{}
	if err := json.Unmarshal(raw, &out); err != nil {
		return nil, nil, err
	}
	return out, nil, nil
}

func c14JSON(v interface{}) string {
	b, _ := json.Marshal(v)
	return string(b)
}

func TestVerifSearch_C14_Conformance(t *testing.T) {
	schema := c14Schema()
	types, root, err := c14Advertise(schema)
	if err != nil {
		t.Fatalf("introspection failed: %v", err)
	}
	evals, distinct, failures := 0, 0, 0
	fail := func(query, detail string) {
		failures++
		if failures <= 3 {
			fmt.Printf("VERIF-FAIL-INPUT: %s\n", c14JSON(map[string]interface{}{"query": query, "detail": detail}))
		}
		t.Errorf("%s: %s", query, detail)
	}
	rootRef := &c14TypeRef{Kind: "OBJECT", Name: &root}
	skipFailing := map[string]bool{"failing": true}
	var wellFormed []*c14Set
	for depth := 0; depth <= 2; depth++ {
		wellFormed = append(wellFormed, c14Full(types, root, depth, skipFailing))
	}
	// one query per top-level field, full depth
	full := c14Full(types, root, 2, skipFailing)
	for _, s := range full.sels {
		wellFormed = append(wellFormed, &c14Set{sels: []*c14Sel{s}})
	}
	names := []string{}
	for n := range types {
		names = append(names, n)
	}
	sort.Strings(names)
	for _, set := range wellFormed {
		text := set.text()
		evals++
		distinct++
		out, verr, xerr := c14Run(schema, text)
		if verr != nil {
			fail(text, "a selection built from the advertised schema is rejected: "+verr.Error())
			continue
		}
		if xerr != nil {
			fail(text, "a validated query fails at execution: "+xerr.Error())
			continue
		}
		if err := c14Conform(types, out, rootRef, set, "$", false); err != nil {
			fail(text, "response does not conform to the advertised types: "+err.Error())
		}
		// ill-formed variants: one defect at one selection site
		var sites []c14Site
		c14Sites(types, set, root, &sites)
		for k := range sites {
			for kind := 0; kind < 3; kind++ {
				mut := c14Clone(set)
				var msites []c14Site
				c14Sites(types, mut, root, &msites)
				site := msites[k]
				sel := site.set.sels[site.idx]
				pt := types[site.parent]
				what := ""
				switch kind {
				case 0: // unknown field next to this one
					site.set.sels = append(site.set.sels, &c14Sel{alias: "nope", name: "notAdvertised"})
					what = "selects a field " + site.parent + " does not advertise"
				case 1: // sub-selection on a scalar / enum
					if sel.sub != nil || sel.name == "__typename" && false {
						continue
					}
					sel.sub = &c14Set{sels: []*c14Sel{{alias: "x", name: "x"}}}
					what = "puts sub-selections on the scalar or enum " + sel.name
				case 2: // object / union without sub-selection
					if sel.sub == nil {
						continue
					}
					sel.sub = nil
					what = "omits the sub-selection of " + sel.name
				}
				_ = pt
				mtext := mut.text()
				evals++
				_, verr, xerr := c14Run(schema, mtext)
				if verr == nil {
					detail := "validation accepts a query that " + what
					if xerr != nil {
						detail += " (execution then fails: " + xerr.Error() + ")"
					}
					fail(mtext, detail)
				}
			}
		}
	}
	// a resolver error is the resolver's, not a shape failure; the validated query must still report it as an error
	evals++
	if _, verr, xerr := c14Run(schema, "{ node { failing { id } } }"); verr != nil || xerr == nil {
		fail("{ node { failing { id } } }", fmt.Sprintf("resolver error not reported: validation=%v execution=%v", verr, xerr))
	}
	fmt.Printf("VERIF-SAMPLE: %s\n", wellFormed[1].text())
	fmt.Printf("VERIF-BOUNDED: evaluations=%d distinct=%d failures=%d\n", evals, distinct, failures)
}
