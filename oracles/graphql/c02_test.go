package graphql_test

// Bounded stand-in for the whole-history clauses of C02 (and of C04 / C08, which it exercises underneath): a real connection
// (CreateConnection + ServeJSONSocket over an in-memory socket) serves live subscriptions over a mutable store; a client
// applies every update of a subscription in order with merge.Merge. Once the data stops changing the client must hold exactly
// what the query yields on the final data; the first message of a subscription is an update; messages carry the id of their
// subscription; after an unsubscribe has been processed (an echo sent after it has come back) no update for that id arrives.
// Labelled bounded in the evidence.

import (
	"context"
	"encoding/json"
	"fmt"
	"math/rand"
	"os"
	"reflect"
	"sort"
	"sync"
	"testing"
	"time"

	"github.com/gorilla/websocket"
	"github.com/samsarahq/thunder/graphql"
	"github.com/samsarahq/thunder/graphql/schemabuilder"
	"github.com/samsarahq/thunder/merge"
	"github.com/samsarahq/thunder/reactive"
)

type c02Socket struct {
	in  chan []byte
	out chan map[string]interface{}
}

func (s *c02Socket) ReadJSON(v interface{}) error {
	b, ok := <-s.in
	if !ok {
		return &websocket.CloseError{Code: websocket.CloseNormalClosure}
	}
	return json.Unmarshal(b, v)
}
func (s *c02Socket) WriteJSON(v interface{}) error {
	b, err := json.Marshal(v)
	if err != nil {
		return err
	}
	var m map[string]interface{}
	if err := json.Unmarshal(b, &m); err != nil {
		return err
	}
	s.out <- m
	return nil
}
func (s *c02Socket) Close() error { return nil }

type c02Item struct {
	Id   int64 `graphql:",key"`
	Name string
	Val  int64
}

type c02Store struct {
	mu      sync.Mutex
	items   []c02Item
	current *c02Item
	count   int64
	res     *reactive.Resource // invalidated on every change
	itemRes *reactive.Resource // the cached sub-computation's own dependency
}

func (s *c02Store) change(f func()) {
	s.mu.Lock()
	f()
	s.mu.Unlock()
	s.res.Strobe()
	s.itemRes.Strobe()
}

func c02Schema(s *c02Store) *graphql.Schema {
	sb := schemabuilder.NewSchema()
	q := sb.Query()
	obj := sb.Object("c02Item", c02Item{})
	obj.Key("id")
	obj.FieldFunc("double", func(it *c02Item) int64 { return 2 * it.Val })
	q.FieldFunc("items", func(ctx context.Context) ([]*c02Item, error) {
		// through the reactive cache: a memoised sub-computation with its own dependency (C08)
		v, err := reactive.Cache(ctx, "items", func(ctx context.Context) (interface{}, error) {
			reactive.AddDependency(ctx, s.itemRes, nil)
			s.mu.Lock()
			defer s.mu.Unlock()
			out := make([]*c02Item, len(s.items))
			for i := range s.items {
				c := s.items[i]
				out[i] = &c
			}
			return out, nil
		})
		if err != nil {
			return nil, err
		}
		return v.([]*c02Item), nil
	})
	q.FieldFunc("current", func(ctx context.Context) *c02Item {
		reactive.AddDependency(ctx, s.res, nil)
		s.mu.Lock()
		defer s.mu.Unlock()
		if s.current == nil {
			return nil
		}
		c := *s.current
		return &c
	})
	q.FieldFunc("count", func(ctx context.Context) int64 {
		reactive.AddDependency(ctx, s.res, nil)
		s.mu.Lock()
		defer s.mu.Unlock()
		return s.count
	})
	sb.Mutation().FieldFunc("noop", func() bool { return true })
	return sb.MustBuild()
}

const c02QueryA = `{ items { id name val double } current { id name } count }`
const c02QueryB = `{ count items { name } }`

// what the query yields on the current data, computed without any reactive machinery
func c02Expected(s *c02Store, which string) interface{} {
	s.mu.Lock()
	defer s.mu.Unlock()
	items := []interface{}{}
	for _, it := range s.items {
		if which == "A" {
			items = append(items, map[string]interface{}{"id": float64(it.Id), "name": it.Name, "val": float64(it.Val), "double": float64(2 * it.Val)})
		} else {
			items = append(items, map[string]interface{}{"name": it.Name})
		}
	}
	out := map[string]interface{}{"items": items, "count": float64(s.count)}
	if which == "A" {
		if s.current == nil {
			out["current"] = nil
		} else {
			out["current"] = map[string]interface{}{"id": float64(s.current.Id), "name": s.current.Name}
		}
	}
	return out
}

func c02StripKeys(v interface{}) interface{} {
	switch x := v.(type) {
	case map[string]interface{}:
		out := map[string]interface{}{}
		for k, e := range x {
			if k == "__key" {
				continue
			}
			out[k] = c02StripKeys(e)
		}
		return out
	case []interface{}:
		out := make([]interface{}, len(x))
		for i, e := range x {
			out[i] = c02StripKeys(e)
		}
		return out
	}
	return v
}

func c02History(t *testing.T, seed int64) (string, bool) {
	rng := rand.New(rand.NewSource(seed))
	store := &c02Store{res: reactive.NewResource(), itemRes: reactive.NewResource(), items: []c02Item{{1, "a", 1}, {2, "b", 2}}, count: 0}
	schema := c02Schema(store)
	sock := &c02Socket{in: make(chan []byte, 64), out: make(chan map[string]interface{}, 1024)}
	conn := graphql.CreateConnection(context.Background(), sock, schema, graphql.WithMinRerunInterval(time.Millisecond))
	done := make(chan struct{})
	go func() { conn.ServeJSONSocket(); close(done) }()
	defer func() {
		close(sock.in)
		select {
		case <-done:
		case <-time.After(5 * time.Second):
		}
	}()
	subscribe := func(id, query string) {
		b, _ := json.Marshal(map[string]interface{}{"id": id, "type": "subscribe", "message": map[string]interface{}{"query": query, "variables": nil}})
		sock.in <- b
	}
	state := map[string]interface{}{}     // per subscription id: merged client state
	seenFirst := map[string]bool{}        // first message seen
	unsubscribed := map[string]bool{}     // unsubscribe processed (echo returned)
	var problem string
	apply := func(msg map[string]interface{}) {
		id, _ := msg["id"].(string)
		switch msg["type"] {
		case "update":
			if unsubscribed[id] && problem == "" {
				problem = fmt.Sprintf("update for %q after its unsubscribe was processed", id)
			}
			if id != "A" && id != "B" && problem == "" {
				problem = fmt.Sprintf("update with unknown id %q", id)
			}
			seenFirst[id] = true
			merged, err := merge.Merge(state[id], msg["message"])
			if err != nil && problem == "" {
				problem = fmt.Sprintf("update for %q cannot be applied: %v", id, err)
			}
			state[id] = merged
		case "error":
			if problem == "" {
				problem = fmt.Sprintf("error message: %v", msg)
			}
		case "echo":
			if id == "unsubB" {
				unsubscribed["B"] = true
			}
		}
	}
	drain := func(d time.Duration) {
		deadline := time.After(d)
		for {
			select {
			case m := <-sock.out:
				apply(m)
			case <-deadline:
				return
			}
		}
	}
	subscribe("A", c02QueryA)
	bLive, bGone := false, false
	nextID := int64(3)
	steps := 6 + rng.Intn(6)
	for k := 0; k < steps; k++ {
		switch rng.Intn(9) {
		case 0: // append an item
			store.change(func() { store.items = append(store.items, c02Item{nextID, fmt.Sprint("n", nextID), nextID}); nextID++ })
		case 1: // remove one
			store.change(func() {
				if len(store.items) > 0 {
					i := rng.Intn(len(store.items))
					store.items = append(append([]c02Item{}, store.items[:i]...), store.items[i+1:]...)
				}
			})
		case 2: // reorder
			store.change(func() {
				sort.Slice(store.items, func(i, j int) bool { return (store.items[i].Id*7)%5 < (store.items[j].Id*7)%5 })
			})
		case 3: // rename / revalue in place
			store.change(func() {
				if len(store.items) > 0 {
					i := rng.Intn(len(store.items))
					store.items[i].Name += "x"
					store.items[i].Val += 10
				}
			})
		case 4: // current appears / disappears / switches
			store.change(func() {
				if store.current == nil && len(store.items) > 0 {
					c := store.items[rng.Intn(len(store.items))]
					store.current = &c
				} else {
					store.current = nil
				}
			})
		case 5: // two changes in quick succession (the second lands while a recomputation may be in flight)
			store.change(func() { store.count++ })
			store.change(func() { store.count++ })
		case 6: // empty the list
			store.change(func() { store.items = nil })
		case 7: // second subscription comes and goes
			if !bLive && !bGone {
				subscribe("B", c02QueryB)
				bLive = true
			} else if bLive {
				bGone = true // B is used for one subscription only: its id is never reused in a history
				sock.in <- []byte(`{"id":"B","type":"unsubscribe"}`)
				sock.in <- []byte(`{"id":"unsubB","type":"echo"}`)
				bLive = false
			}
		case 8:
			store.change(func() { store.count += 100 })
		}
		drain(time.Duration(rng.Intn(4)) * time.Millisecond)
	}
	// quiet: wait until the client holds the final result (or time out)
	deadline := time.Now().Add(4 * time.Second)
	for {
		drain(20 * time.Millisecond)
		okA := reflect.DeepEqual(c02StripKeys(state["A"]), c02Expected(store, "A"))
		okB := !bLive || reflect.DeepEqual(c02StripKeys(state["B"]), c02Expected(store, "B"))
		if problem != "" {
			return problem, true
		}
		if okA && okB {
			break
		}
		if time.Now().After(deadline) {
			which, id := "A", "A"
			if okA {
				which, id = "B", "B"
			}
			got, _ := json.Marshal(c02StripKeys(state[id]))
			want, _ := json.Marshal(c02Expected(store, which))
			return fmt.Sprintf("after the data stopped changing the client of subscription %s holds %s, the query on the final data yields %s", id, got, want), true
		}
	}
	if !seenFirst["A"] {
		return "subscription A never received an update", true
	}
	// after quiescence nothing more may arrive for an unsubscribed id
	drain(30 * time.Millisecond)
	return problem, problem != ""
}

func TestVerifBounded_C02_Convergence(t *testing.T) {
	seed := int64(1)
	fmt.Sscan(os.Getenv("VERIF_SEED"), &seed)
	n := 25
	if os.Getenv("VERIF_TIER") == "thorough" {
		n = 150
	}
	evals, failures := 0, 0
	for k := 0; k < n; k++ {
		if failures >= 3 {
			break // three failing histories are enough to report; each further one costs its whole timeout
		}
		evals++
		if detail, bad := c02History(t, seed*1000+int64(k)); bad {
			failures++
			if failures <= 3 {
				b, _ := json.Marshal(map[string]interface{}{"history_seed": seed*1000 + int64(k), "detail": detail})
				fmt.Printf("VERIF-FAIL-INPUT: %s\n", b)
				t.Errorf("history %d: %s", seed*1000+int64(k), detail)
			} else {
				t.Fail()
			}
		}
	}
	fmt.Printf("VERIF-SAMPLE: subscribe A; append; reorder; current appears; count+2 twice; subscribe B; empty list; unsubscribe B\n")
	fmt.Printf("VERIF-BOUNDED: evaluations=%d distinct=%d failures=%d\n", evals, evals, failures)
}
