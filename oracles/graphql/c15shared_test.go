package graphql_test

// Bounded stand-in for C15 / C14 where validation results are remembered (defect s26 introduced a table of checked
// (type, selection set) pairs): one named fragment spread under fields of different types - directly, nested, behind lists,
// under a union - where some of the types lack the fragment's fields. Whatever the order of the spreads, validation must
// reject the query (it may never remember "this selection set was fine" across types), and neither validation nor an
// execution after a wrongly accepted validation may panic. Labelled bounded.

import (
	"context"
	"encoding/json"
	"fmt"
	"testing"

	"github.com/samsarahq/thunder/graphql"
	"github.com/samsarahq/thunder/graphql/schemabuilder"
)

type C15sCat struct{ Name string }
type C15sBox struct{ Size int64 }
type C15sEither struct {
	schemabuilder.Union
	*C15sCat
	*C15sBox
}

type c15sInline struct{}

func (c15sInline) Run(resolver graphql.UnitResolver, units ...*graphql.WorkUnit) {
	for len(units) > 0 {
		u := units[0]
		units = append(units[1:], resolver(u)...)
	}
}

func TestVerifBounded_C15_SharedFragments(t *testing.T) {
	sb := schemabuilder.NewSchema()
	sb.Object("C15sCat", C15sCat{})
	sb.Object("C15sBox", C15sBox{})
	q := sb.Query()
	q.FieldFunc("cat", func() *C15sCat { return &C15sCat{Name: "tom"} })
	q.FieldFunc("box", func() *C15sBox { return &C15sBox{Size: 3} })
	q.FieldFunc("cats", func() []*C15sCat { return []*C15sCat{{Name: "a"}, {Name: "b"}} })
	q.FieldFunc("boxes", func() []*C15sBox { return []*C15sBox{{Size: 1}} })
	q.FieldFunc("either", func() []*C15sEither { return []*C15sEither{{C15sCat: &C15sCat{Name: "u"}}, {C15sBox: &C15sBox{Size: 9}}} })
	sb.Mutation().FieldFunc("noop", func() bool { return true })
	schema := sb.MustBuild()
	type tc struct {
		query string
		valid bool
	}
	cases := []tc{
		{`{ cat { ...F } box { ...F } } fragment F on C15sCat { name }`, false},
		{`{ box { ...F } cat { ...F } } fragment F on C15sCat { name }`, false},
		{`{ cat { ...F } cats { ...F } } fragment F on C15sCat { name }`, true},
		{`{ cats { ...F } boxes { ...F } } fragment F on C15sCat { name }`, false},
		{`{ boxes { ...F } cats { ...F } } fragment F on C15sBox { size }`, false},
		{`{ cat { ...G } box { ...G } } fragment G on C15sCat { ...F } fragment F on C15sCat { name }`, false},
		{`{ cat { ...F ...F } box { size } } fragment F on C15sCat { name }`, true},
		{`{ either { ... on C15sCat { ...F } ... on C15sBox { ...F } } } fragment F on C15sCat { name }`, false},
		{`{ either { ... on C15sBox { ...F } ... on C15sCat { ...F } } } fragment F on C15sCat { name }`, false},
		{`{ either { ... on C15sCat { ...F } ... on C15sBox { size } } cat { ...F } } fragment F on C15sCat { name }`, true},
		{`{ cat { ...F } box { ...H } } fragment F on C15sCat { name } fragment H on C15sBox { size }`, true},
	}
	evals, failures := 0, 0
	fail := func(query, detail string) {
		failures++
		if failures <= 3 {
			b, _ := json.Marshal(map[string]interface{}{"query": query, "detail": detail})
			fmt.Printf("VERIF-FAIL-INPUT: %s\n", b)
			t.Errorf("%s: %s", query, detail)
		} else {
			t.Fail()
		}
	}
	for _, c := range cases {
		evals++
		var panicked interface{}
		var prepErr, execErr error
		func() {
			defer func() { panicked = recover() }()
			parsed, err := graphql.Parse(c.query, nil)
			if err != nil {
				prepErr = err
				return
			}
			if prepErr = graphql.PrepareQuery(context.Background(), schema.Query, parsed.SelectionSet); prepErr != nil {
				return
			}
			_, execErr = graphql.NewExecutor(c15sInline{}).Execute(context.Background(), schema.Query, nil, parsed)
		}()
		switch {
		case panicked != nil:
			fail(c.query, fmt.Sprintf("panic: %v", panicked))
		case c.valid && (prepErr != nil || execErr != nil):
			fail(c.query, fmt.Sprintf("a valid query is refused: %v %v", prepErr, execErr))
		case !c.valid && prepErr == nil:
			fail(c.query, "a fragment is spread on a type that lacks its fields, and validation accepts the query")
		}
	}
	fmt.Printf("VERIF-SAMPLE: { cat { ...F } box { ...F } } fragment F on C15sCat { name }\n")
	fmt.Printf("VERIF-BOUNDED: evaluations=%d distinct=%d failures=%d\n", evals, evals, failures)
}
