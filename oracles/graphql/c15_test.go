package graphql

import (
	"fmt"
	"os"
	"testing"
)

// verifParseNoPanic: whatever the text, Parse returns a query or an error; it never panics (C15).
func verifParseNoPanic(text string, vars map[string]interface{}) (bad bool, detail string) {
	defer func() {
		if r := recover(); r != nil {
			bad, detail = true, fmt.Sprintf("Parse panics: %v", r)
		}
	}()
	q, err := Parse(text, vars)
	if err == nil && q == nil {
		return true, "Parse returned neither a query nor an error"
	}
	if err == nil {
		if _, ferr := Flatten(q.SelectionSet); ferr != nil {
			_ = ferr
		}
	}
	return false, "ok"
}

// A small grammar of query texts: selections built from fields (plain, aliased, with arguments of every literal
// kind, with directives), inline fragments with and without type condition, named fragment spreads (defined, undefined,
// cyclic), variables with and without defaults, plus malformed documents.
func TestVerifSearch_C15_Parse(t *testing.T) {
	fields := []string{"a", "x: a", "a(i: 1)", "a(f: 1.5, s: \"t\", b: true, e: RED, n: null)", "a(l: [1, [2]], o: {k: 1, k2: {z: $v}})", "a(o: {k: 1, k: 2})",
		"a @skip(if: true)", "a @include(if: $v) @skip(if: false)", "a @skip", "a(i: 1, i: 2)", "a { b }", "a { ...F }", "__typename"}
	fragments := []string{"... on T { b }", "... { b }", "... @skip(if: true) { b }", "...F", "...F @include(if: false)", "...G", "... on T @include(if: $v) { ...F }"}
	defs := []string{"", "fragment F on T { c }", "fragment F on T { ...F }", "fragment F on T { c } fragment G on T { ...F }", "fragment F on T { c } fragment F on T { d }", "fragment U on T { c }"}
	heads := []string{"", "query Q", "query Q($v: Boolean = true)", "query Q($v: Boolean!)", "query Q($v: [Int] = [1], $w: T = {a: 1})", "mutation M", "subscription S"}
	varsets := []map[string]interface{}{nil, {"v": true}, {"v": "str"}, {"w": map[string]interface{}{"a": 1.0}}}
	malformed := []string{"", "{", "}", "{ a", "query", "{ a(", "{ ... }", "{ a } { b }", "fragment F on T { a }", "query A { a } query B { b }", "{ a(x: $) }", "\x00", "{ \"a\" }", "{ a @ }", "{ ...on }"}
	thorough := os.Getenv("VERIF_TIER") == "thorough"
	evals, distinct, failures := 0, 0, 0
	seen := map[string]bool{}
	try := func(text string, vars map[string]interface{}) {
		evals++
		if !seen[text] {
			seen[text] = true
			distinct++
		}
		if bad, detail := verifParseNoPanic(text, vars); bad {
			failures++
			if failures == 1 {
				fmt.Printf("VERIF-FAIL-INPUT: %s\n", verifJSON(map[string]interface{}{"query": text, "variables": vars, "detail": detail}))
			}
		}
	}
	for _, m := range malformed {
		try(m, nil)
	}
	for _, h := range heads {
		for _, d := range defs {
			for _, f := range fields {
				for vi, vs := range varsets {
					if !thorough && vi > 1 {
						continue
					}
					try(h+" { "+f+" } "+d, vs)
				}
			}
			for _, fr := range fragments {
				try(h+" { "+fr+" } "+d, varsets[1])
				try(h+" { a { "+fr+" } "+fr+" } "+d, varsets[1])
			}
		}
	}
	fmt.Printf("VERIF-SAMPLE: query Q($v: Boolean = true) { ... { b } } fragment F on T { c }\n")
	fmt.Printf("VERIF-BOUNDED: evaluations=%d distinct=%d failures=%d\n", evals, distinct, failures)
}
