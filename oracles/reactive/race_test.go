package reactive

import (
	"context"
	"sync"
	"testing"
	"time"
)

// Replay for lockset obligations of package reactive: invalidation, dependency registration, re-runs and Stop race. Run with -race.
func TestVerifRace_reactive(t *testing.T) {
	res := NewResource()
	var mu sync.Mutex
	cur := res
	r := NewRerunner(context.Background(), func(ctx context.Context) (interface{}, error) {
		mu.Lock()
		x := cur
		mu.Unlock()
		AddDependency(ctx, x, nil)
		Cache(ctx, "k", func(ctx context.Context) (interface{}, error) { return 1, nil })
		return nil, nil
	}, time.Millisecond, false)
	var wg sync.WaitGroup
	for i := 0; i < 4; i++ {
		wg.Add(1)
		go func() {
			defer wg.Done()
			for j := 0; j < 20; j++ {
				mu.Lock()
				old := cur
				cur = NewResource()
				mu.Unlock()
				old.Invalidate()
				old.Strobe()
				r.RerunImmediately()
				time.Sleep(time.Millisecond)
			}
		}()
	}
	wg.Wait()
	r.Stop()
	time.Sleep(300 * time.Millisecond)
}
