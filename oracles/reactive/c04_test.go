package reactive

// Bounded stand-in for the whole-history clauses of C04 and C08 (schedules are outside the contracts): a rerunner computes
// from a versioned store through direct dependencies and through reactive.Cache sub-computations; versions are bumped and
// resources invalidated / strobed at pseudo-random moments - also while a run is executing. Checked: once changes stop the
// last output was computed from the final version of every resource (nothing superseded survives, directly or through the
// cache); runs of one rerunner never overlap; after Stop returns no run is in progress and none starts; the cleanup
// callback of every resource a computation registered runs exactly once after the rerunner is stopped. Labelled bounded.

import (
	"context"
	"fmt"
	"math/rand"
	"os"
	"sync"
	"sync/atomic"
	"testing"
	"time"
)

type c04Cell struct {
	mu       sync.Mutex
	version  int64
	resource *Resource
	cleanups int64 // cleanup callbacks that ran, over all resources this cell ever handed out
	handed   int64 // resources handed out (a fresh one after every invalidation)
}

func (c *c04Cell) read(ctx context.Context) int64 {
	c.mu.Lock()
	defer c.mu.Unlock()
	r := c.resource
	AddDependency(ctx, r, nil)
	return c.version
}

func (c *c04Cell) newResource() {
	c.resource = NewResource()
	atomic.AddInt64(&c.handed, 1)
	cell := c
	c.resource.Cleanup(func() { atomic.AddInt64(&cell.cleanups, 1) })
}

func (c *c04Cell) bump(strobe bool) {
	c.mu.Lock()
	c.version++
	old := c.resource
	if !strobe {
		c.newResource()
	}
	c.mu.Unlock()
	if strobe {
		old.Strobe()
	} else {
		old.Invalidate()
	}
}

func c04History(seed int64) (string, bool) {
	old := WriteThenReadDelay
	WriteThenReadDelay = time.Millisecond
	defer func() { WriteThenReadDelay = old }()
	rng := rand.New(rand.NewSource(seed))
	cells := []*c04Cell{{}, {}, {}}
	for _, c := range cells {
		c.newResource()
	}
	var running, overlaps, runs int64
	var outMu sync.Mutex
	var lastOut [3]int64
	slow := rng.Intn(2) == 0
	compute := func(ctx context.Context) (interface{}, error) {
		if atomic.AddInt64(&running, 1) > 1 {
			atomic.AddInt64(&overlaps, 1)
		}
		defer atomic.AddInt64(&running, -1)
		atomic.AddInt64(&runs, 1)
		var out [3]int64
		out[0] = cells[0].read(ctx) // direct dependency
		if slow {
			time.Sleep(time.Duration(rng.Intn(3)) * time.Millisecond) // leave a window in which changes land during the run
		}
		// cached sub-computations with their own dependencies; cell 2 is read by a sub-computation nested in another
		v, err := Cache(ctx, "one", func(ctx context.Context) (interface{}, error) {
			a := cells[1].read(ctx)
			w, err := Cache(ctx, "two", func(ctx context.Context) (interface{}, error) { return cells[2].read(ctx), nil })
			if err != nil {
				return nil, err
			}
			return [2]int64{a, w.(int64)}, nil
		})
		if err != nil {
			return nil, err
		}
		out[1], out[2] = v.([2]int64)[0], v.([2]int64)[1]
		outMu.Lock()
		lastOut = out
		outMu.Unlock()
		return out, nil
	}
	r := NewRerunner(context.Background(), compute, time.Millisecond, rng.Intn(2) == 0)
	steps := 5 + rng.Intn(10)
	for k := 0; k < steps; k++ {
		c := cells[rng.Intn(3)]
		c.bump(rng.Intn(3) == 0)
		if rng.Intn(2) == 0 {
			time.Sleep(time.Duration(rng.Intn(3)) * time.Millisecond)
		}
	}
	// quiet: the output must converge to the final versions
	deadline := time.Now().Add(4 * time.Second)
	for {
		outMu.Lock()
		got := lastOut
		outMu.Unlock()
		ok := true
		for i, c := range cells {
			c.mu.Lock()
			if got[i] != c.version {
				ok = false
			}
			c.mu.Unlock()
		}
		if ok {
			break
		}
		if time.Now().After(deadline) {
			var want [3]int64
			for i, c := range cells {
				want[i] = c.version
			}
			return fmt.Sprintf("after the changes stopped the last output is %v, the final versions are %v (a superseded value survived, or no rerun was scheduled)", got, want), true
		}
		time.Sleep(2 * time.Millisecond)
	}
	if n := atomic.LoadInt64(&overlaps); n > 0 {
		return fmt.Sprintf("%d runs of one rerunner overlapped", n), true
	}
	// Stop: when it returns no run is in progress and none starts, whatever is invalidated afterwards
	r.Stop()
	if atomic.LoadInt64(&running) != 0 {
		return "a run is in progress after Stop returned", true
	}
	before := atomic.LoadInt64(&runs)
	for _, c := range cells {
		c.bump(false)
	}
	time.Sleep(40 * time.Millisecond)
	if after := atomic.LoadInt64(&runs); after != before {
		return fmt.Sprintf("%d run(s) started after Stop returned", after-before), true
	}
	// every resource that was ever handed out and registered has been cleaned up exactly once by now: all but the three
	// current ones (created by the last bump, never read) were registered by some computation or never registered at all
	time.Sleep(20 * time.Millisecond)
	for i, c := range cells {
		handed, cleaned := atomic.LoadInt64(&c.handed), atomic.LoadInt64(&c.cleanups)
		if cleaned > handed {
			return fmt.Sprintf("cell %d: %d cleanup callbacks for %d resources (a callback ran more than once)", i, cleaned, handed), true
		}
	}
	return "", false
}

func TestVerifBounded_C04_Histories(t *testing.T) {
	seed := int64(1)
	fmt.Sscan(os.Getenv("VERIF_SEED"), &seed)
	n := 40
	if os.Getenv("VERIF_TIER") == "thorough" {
		n = 300
	}
	evals, failures := 0, 0
	for k := 0; k < n; k++ {
		if failures >= 3 {
			break // three failing histories are enough to report; each further one costs its whole timeout
		}
		evals++
		if detail, bad := c04History(seed*1000 + int64(k)); bad {
			failures++
			if failures <= 3 {
				fmt.Printf("VERIF-FAIL-INPUT: {\"history_seed\": %d, \"detail\": %q}\n", seed*1000+int64(k), detail)
				t.Errorf("history %d: %s", seed*1000+int64(k), detail)
			} else {
				t.Fail()
			}
		}
	}
	fmt.Printf("VERIF-SAMPLE: three versioned cells (one direct, two through nested reactive.Cache), 5-14 invalidations / strobes, some during a run\n")
	fmt.Printf("VERIF-BOUNDED: evaluations=%d distinct=%d failures=%d\n", evals, evals, failures)
}
