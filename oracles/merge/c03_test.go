package merge

import (
	"encoding/json"
	"fmt"
	"os"
	"reflect"
	"sort"
	"testing"

	"github.com/samsarahq/thunder/diff"
)

// ---- oracle for uncompressIndices: independent encoder of the documented run format, through real JSON

func verifCompress(ind []int) []interface{} {
	var out []interface{}
	for i := 0; i < len(ind); {
		j := i
		for j < len(ind) && ind[j] != -1 && ind[j]-ind[i] == j-i {
			j++
		}
		switch {
		case j == i:
			out = append(out, -1)
			i++
		case j-i == 1:
			out = append(out, ind[i])
			i = j
		default:
			out = append(out, [2]int{ind[i], j - i}) // [first, count]
			i = j
		}
	}
	if out == nil {
		out = []interface{}{}
	}
	return out
}

func verifJSONRoundTrip(v interface{}) interface{} {
	b, err := json.Marshal(v)
	if err != nil {
		panic(err)
	}
	var out interface{}
	if err := json.Unmarshal(b, &out); err != nil {
		panic(err)
	}
	return out
}

func verifUncompressCheck(ind []int) (bool, string) {
	got, err := uncompressIndices(verifJSONRoundTrip(verifCompress(ind)))
	if err != nil {
		return true, "error: " + err.Error()
	}
	if len(got) != len(ind) {
		return true, fmt.Sprintf("uncompress gives %v, want %v", got, ind)
	}
	for i := range ind {
		if got[i] != ind[i] {
			return true, fmt.Sprintf("uncompress gives %v, want %v", got, ind)
		}
	}
	return false, "agrees"
}

func TestVerifSearch_uncompressIndices(t *testing.T) {
	evals, distinct, failures := 0, 0, 0
	var rec func(cur []int, want int)
	rec = func(cur []int, want int) {
		if len(cur) == want {
			evals++
			if want > 1 {
				distinct++
			}
			if bad, detail := verifUncompressCheck(cur); bad {
				failures++
				if failures == 1 {
					fmt.Printf("VERIF-FAIL-INPUT: %s\n", verifJSON(map[string]interface{}{"indices": cur, "compressed": verifCompress(cur), "detail": detail}))
				}
			}
			return
		}
		for v := -1; v <= 4; v++ {
			rec(append(append([]int{}, cur...), v), want)
		}
	}
	for n := 0; n <= 5; n++ {
		rec(nil, n)
	}
	fmt.Printf("VERIF-SAMPLE: indices=[2 3 0] compressed=[[2,2],0]\n")
	fmt.Printf("VERIF-BOUNDED: evaluations=%d distinct=%d failures=%d\n", evals, distinct, failures)
}

// ---- composite stand-in (bounded): Merge(json(StripKey(old)), json(Diff(old,new))) == json(StripKey(new))

func verifDeepCopy(v interface{}) interface{} {
	switch v := v.(type) {
	case map[string]interface{}:
		m := map[string]interface{}{}
		for k, e := range v {
			m[k] = verifDeepCopy(e)
		}
		return m
	case []interface{}:
		l := make([]interface{}, len(v))
		for i, e := range v {
			l[i] = verifDeepCopy(e)
		}
		return l
	}
	return v
}

func verifClass(old, new interface{}) string {
	kind := func(v interface{}) string {
		switch v.(type) {
		case map[string]interface{}:
			return "object"
		case []interface{}:
			return "array"
		case nil:
			return "null"
		}
		return "scalar"
	}
	return kind(old) + "->" + kind(new)
}

func verifRoundTripCheck(old, new interface{}) (bool, string) {
	oldCopy, newCopy := verifDeepCopy(old), verifDeepCopy(new)
	var d interface{}
	func() {
		defer func() {
			if r := recover(); r != nil {
				d = fmt.Sprintf("PANIC %v", r)
			}
		}()
		d = diff.Diff(old, new)
	}()
	if s, ok := d.(string); ok && len(s) > 5 && s[:5] == "PANIC" {
		return true, "Diff panics: " + s
	}
	if !reflect.DeepEqual(old, oldCopy) || !reflect.DeepEqual(new, newCopy) {
		return true, "Diff modified an argument"
	}
	want := verifJSONRoundTrip(diff.StripKey(new))
	prev := verifJSONRoundTrip(diff.StripKey(old))
	if d == nil {
		if !reflect.DeepEqual(prev, want) {
			return true, fmt.Sprintf("Diff is nil but values differ: %s vs %s", verifJSON(prev), verifJSON(want))
		}
		return false, "agrees (empty diff)"
	}
	jd := verifJSONRoundTrip(d)
	var got interface{}
	var err error
	func() {
		defer func() {
			if r := recover(); r != nil {
				err = fmt.Errorf("PANIC %v", r)
			}
		}()
		got, err = Merge(prev, jd)
	}()
	if err != nil {
		return true, fmt.Sprintf("Merge fails on delta %s: %v", verifJSON(jd), err)
	}
	if !reflect.DeepEqual(got, want) {
		return true, fmt.Sprintf("delta %s merges to %s, want %s", verifJSON(jd), verifJSON(got), verifJSON(want))
	}
	return false, "agrees"
}

func verifValues(thorough bool) (leaf []interface{}, mid []interface{}) {
	leaf = []interface{}{1, 2, "s", true, nil}
	keyed := func(k int, a interface{}) interface{} {
		m := map[string]interface{}{"__key": k}
		if a != nil {
			m["a"] = a
		}
		return m
	}
	// depth-1 objects over keys a, b (absent or a leaf), with and without __key
	var objs []interface{}
	opts := append([]interface{}{"<absent>"}, leaf...)
	for _, a := range opts {
		for _, b := range opts {
			for _, key := range []interface{}{nil, 1, 2} {
				m := map[string]interface{}{}
				if a != "<absent>" {
					m["a"] = a
				}
				if b != "<absent>" {
					m["b"] = b
				}
				if key != nil {
					m["__key"] = key
				}
				objs = append(objs, m)
			}
		}
	}
	// arrays of leaves / keyed objects up to length 3
	elems := []interface{}{1, 2, "s", nil, keyed(1, 1), keyed(2, 1), keyed(1, 2)}
	var arrs []interface{}
	maxLen := 3
	var rec func(cur []interface{})
	rec = func(cur []interface{}) {
		arrs = append(arrs, append([]interface{}{}, cur...))
		if len(cur) == maxLen {
			return
		}
		for _, e := range elems {
			rec(append(append([]interface{}{}, cur...), e))
		}
	}
	rec(nil)
	mid = append(mid, leaf...)
	mid = append(mid, objs...)
	mid = append(mid, arrs...)
	return
}

// TestVerifBounded_C03_RoundTrip: labelled bounded. Families:
//  A: all ordered pairs of depth-1 values (scalars, objects over {a,b,__key}, arrays <= 3 of leaves/keyed objects) [quick: a seeded half]
//  B: depth-2 objects {f: x} -> {f: y} and {f: x} -> {g: y}, {} for all depth-1 x, y from a representative subset
//  D: aliased arguments: new = old[:k] / append(old, x) sharing the backing array, top level and nested
//  C: reorder family: old = first n of [k1..k4], new = every sequence of length <= 4 over {k1..k5} (keyed objects and plain scalars)
func TestVerifBounded_C03_RoundTrip(t *testing.T) {
	thorough := os.Getenv("VERIF_TIER") == "thorough"
	_, mid := verifValues(thorough)
	evals, failures := 0, 0
	seen := map[string]bool{}
	classes := map[string]int{}
	firstFail := ""
	aliased := false
	check := func(old, new interface{}) {
		evals++
		key := verifJSON(old) + "|" + verifJSON(new)
		if !seen[key] && key != verifJSON(new)+"|"+verifJSON(old) {
			seen[key] = true
		}
		o2, n2 := verifDeepCopy(old), verifDeepCopy(new)
		if aliased {
			o2, n2 = old, new // keep the sharing between the two arguments
		}
		if bad, detail := verifRoundTripCheck(o2, n2); bad {
			failures++
			classes[verifClass(old, new)]++
			if firstFail == "" {
				firstFail = verifJSON(map[string]interface{}{"old": old, "new": new, "detail": detail})
			}
		}
		if bad, detail := verifRoundTripCheck(verifDeepCopy(old), verifDeepCopy(old)); bad || diff.Diff(old, old) != nil {
			failures++
			classes["self"]++
			if firstFail == "" {
				firstFail = verifJSON(map[string]interface{}{"old": old, "new": old, "detail": "Diff(x,x): " + detail})
			}
		}
	}
	// A
	step := 1
	if !thorough {
		step = 3
	}
	seed := 0
	fmt.Sscan(os.Getenv("VERIF_SEED"), &seed)
	for i, o := range mid {
		for j, n := range mid {
			if (i*len(mid)+j+seed)%step != 0 {
				continue
			}
			check(o, n)
		}
	}
	// B
	var rep []interface{}
	for i, v := range mid {
		if i%17 == 0 || i < 6 {
			rep = append(rep, v)
		}
	}
	for _, x := range rep {
		for _, y := range rep {
			check(map[string]interface{}{"f": x}, map[string]interface{}{"f": y})
			check(map[string]interface{}{"f": x}, map[string]interface{}{"g": y})
			check(map[string]interface{}{"f": x, "__key": 1}, map[string]interface{}{"f": y, "__key": 1})
			check([]interface{}{x}, []interface{}{y, x})
		}
	}
	// C
	for _, keyedElems := range []bool{true, false} {
		mk := func(k int) interface{} {
			if keyedElems {
				return map[string]interface{}{"__key": k, "v": k}
			}
			return k
		}
		for n := 0; n <= 4; n++ {
			var old []interface{}
			for k := 1; k <= n; k++ {
				old = append(old, mk(k))
			}
			var rec func(cur []interface{})
			rec = func(cur []interface{}) {
				check(old, cur)
				if len(cur) == 4 {
					return
				}
				for k := 1; k <= 5; k++ {
					dup := false
					for _, e := range cur {
						if reflect.DeepEqual(e, mk(k)) {
							dup = true
						}
					}
					if dup {
						continue
					}
					rec(append(append([]interface{}{}, cur...), mk(k)))
				}
			}
			rec([]interface{}{})
		}
	}
	// D: aliased arguments - new shares its backing array with old (new = old[:k], new = append(old[:k], x) within capacity),
	// at top level and inside distinct parent objects
	aliased = true
	for n := 1; n <= 3; n++ {
		for k := 0; k <= n; k++ {
			backing := make([]interface{}, n, n+2)
			for i := range backing {
				backing[i] = i + 1
			}
			old := backing[:n]
			check(old, old[:k])
			check(map[string]interface{}{"l": old}, map[string]interface{}{"l": old[:k]})
			if k < n {
				grown := append(old[:k:k], 9) // fresh backing: control
				check(old, grown)
			}
			ext := append(old, 7) // shares the backing array, longer
			check(old, ext)
			check(map[string]interface{}{"l": old, "__key": 1}, map[string]interface{}{"l": ext, "__key": 1})
		}
	}
	if firstFail != "" {
		fmt.Printf("VERIF-FAIL-INPUT: %s\n", firstFail)
		var cs []string
		for c, n := range classes {
			cs = append(cs, fmt.Sprintf("%s:%d", c, n))
		}
		sort.Strings(cs)
		fmt.Printf("VERIF-FAIL-CLASSES: %v\n", cs)
	}
	fmt.Printf("VERIF-SAMPLE: old=[{\"__key\":1,\"v\":1},{\"__key\":2,\"v\":2}] new=[{\"__key\":2,\"v\":2},{\"__key\":1,\"v\":1}]\n")
	fmt.Printf("VERIF-BOUNDED: evaluations=%d distinct=%d failures=%d\n", evals, len(seen), failures)
}
