package diff

import (
	"fmt"
	"testing"
)

// Oracle for compressReorderIndices, from the documented format: the expansion of the compressed
// list ([first,count] runs, plain indices, -1) must be the index list, and runs are only used for
// at least two consecutive indices.
func verifExpand(c []interface{}) ([]int, string) {
	var out []int
	for _, e := range c {
		switch e := e.(type) {
		case int:
			out = append(out, e)
		case [2]int:
			if e[1] < 2 {
				return nil, fmt.Sprintf("run %v shorter than 2", e)
			}
			for k := 0; k < e[1]; k++ {
				out = append(out, e[0]+k)
			}
		default:
			return nil, fmt.Sprintf("unexpected entry %#v", e)
		}
	}
	return out, ""
}

func verifCompressCheck(ind []int) (bool, string) {
	cp := append([]int{}, ind...)
	c := compressReorderIndices(ind)
	got, why := verifExpand(c)
	if why != "" {
		return true, why
	}
	if fmt.Sprint(got) != fmt.Sprint(cp) {
		return true, fmt.Sprintf("expands to %v, want %v", got, cp)
	}
	if fmt.Sprint(ind) != fmt.Sprint(cp) {
		return true, "argument modified"
	}
	return false, "agrees"
}

func TestVerifReplay_compressReorderIndices(t *testing.T) {
	in := verifLoadInput(t)
	params, _ := in["params"].(map[string]interface{})
	var ind []int
	list, _ := params["indices"].([]interface{})
	for _, e := range list {
		f, _ := e.(float64)
		ind = append(ind, int(f))
	}
	bad, detail := verifCompressCheck(ind)
	if bad {
		fmt.Printf("VERIF-REPLAY: CONFIRMED input=%v %s\n", ind, detail)
	} else {
		fmt.Printf("VERIF-REPLAY: NOT-CONFIRMED input=%v %s\n", ind, detail)
	}
}

// every index list over {-1..4} of length <= 5 (thorough: 6)
func TestVerifSearch_compressReorderIndices(t *testing.T) {
	evals, distinct, failures := 0, 0, 0
	maxLen := 5
	var rec func(cur []int, want int)
	rec = func(cur []int, want int) {
		if len(cur) == want {
			evals++
			if want > 1 {
				distinct++
			}
			if bad, detail := verifCompressCheck(cur); bad {
				failures++
				if failures == 1 {
					fmt.Printf("VERIF-FAIL-INPUT: %s\n", verifJSON(map[string]interface{}{"indices": cur, "detail": detail}))
				}
			}
			return
		}
		for v := -1; v <= 4; v++ {
			rec(append(append([]int{}, cur...), v), want)
		}
	}
	for n := 0; n <= maxLen; n++ {
		rec(nil, n)
	}
	fmt.Printf("VERIF-SAMPLE: indices=[1 2 3 -1 0]\n")
	fmt.Printf("VERIF-BOUNDED: evaluations=%d distinct=%d failures=%d\n", evals, distinct, failures)
}
