package livesql

import (
	"fmt"
	"reflect"
	"testing"
	"time"
	"unsafe"

	"github.com/samsarahq/thunder/logger"
	"github.com/samsarahq/thunder/reactive"
	"github.com/samsarahq/thunder/sqlgen"
	"github.com/siddontang/go-mysql/replication"
)

type verifUser struct {
	Id   int64 `sql:",primary"`
	Name string
}

// verifBinlog builds a Binlog fed from an in-memory event channel (no MySQL): the streamer's unexported channel is
// replaced through reflection, the column map of table "users" is pre-populated.
func verifBinlog(events chan *replication.BinlogEvent) (*Binlog, *LiveDB) {
	schema := sqlgen.NewSchema()
	schema.MustRegisterType("users", sqlgen.AutoIncrement, verifUser{})
	ldb := NewLiveDB(sqlgen.NewDB(nil, schema))
	streamer := &replication.BinlogStreamer{}
	f := reflect.ValueOf(streamer).Elem().FieldByName("ch")
	reflect.NewAt(f.Type(), unsafe.Pointer(f.UnsafeAddr())).Elem().Set(reflect.ValueOf(events))
	b := &Binlog{
		db: ldb.DB, tracker: ldb.tracker, database: "db", streamer: streamer,
		tableVersions: map[string]uint64{}, columnMaps: map[string]*columnMap{"users": {expectedColumns: 2, source: []int{0, 1}}},
		logger: logger.New(),
	}
	return b, ldb
}

func verifRowsEvent(kind replication.EventType, rows [][]interface{}) *replication.BinlogEvent {
	return &replication.BinlogEvent{
		Header: &replication.EventHeader{EventType: kind},
		Event:  &replication.RowsEvent{Table: &replication.TableMapEvent{Schema: []byte("db"), Table: []byte("users")}, Rows: rows},
	}
}

// Property clause (C07): "A change event that cannot be decoded must invalidate all live queries on its table rather
// than be dropped." One live query on users (any filter) is registered; each undecodable event must invalidate it.
func TestVerifSearch_C07_DecodeFailure(t *testing.T) {
	bad := map[string]*replication.BinlogEvent{
		"insert with too few columns":    verifRowsEvent(replication.WRITE_ROWS_EVENTv2, [][]interface{}{{int64(1)}}),
		"insert with an undecodable id":  verifRowsEvent(replication.WRITE_ROWS_EVENTv2, [][]interface{}{{"not-a-number", "bob"}}),
		"update with an odd row count":   verifRowsEvent(replication.UPDATE_ROWS_EVENTv2, [][]interface{}{{int64(1), "a"}}),
		"delete with too many columns":   verifRowsEvent(replication.DELETE_ROWS_EVENTv2, [][]interface{}{{int64(1), "a", "x"}}),
		"rows event of an unknown kind":  verifRowsEvent(replication.EventType(250), [][]interface{}{{int64(1), "a"}}),
		"decodable insert that matches":  verifRowsEvent(replication.WRITE_ROWS_EVENTv2, [][]interface{}{{int64(5), "bob"}}),
		"decodable update that matches":  verifRowsEvent(replication.UPDATE_ROWS_EVENTv2, [][]interface{}{{int64(5), "a"}, {int64(5), "b"}}),
	}
	evals, distinct, failures := 0, 0, 0
	for name, ev := range bad {
		evals++
		distinct++
		events := make(chan *replication.BinlogEvent, 4)
		b, ldb := verifBinlog(events)
		tester, err := ldb.Schema.MakeTester("users", sqlgen.Filter{"id": int64(5)})
		if err != nil {
			t.Fatal(err)
		}
		res := reactive.NewResource()
		ldb.tracker.add(&dbResource{table: "users", tester: tester, resource: res})
		go b.RunPollLoop()
		events <- ev
		ok := false
		for i := 0; i < 100 && !ok; i++ {
			time.Sleep(5 * time.Millisecond)
			ok = res.Invalidated()
		}
		b.mu.Lock()
		b.closed = true
		b.mu.Unlock()
		_ = events // the poll loop goroutine stays blocked on the stream; the test process ends it
		if !ok {
			failures++
			if failures == 1 {
				fmt.Printf("VERIF-FAIL-INPUT: %s\n", verifJSON(map[string]interface{}{"event": name, "detail": "the live query on table users (filter id=5) was not invalidated"}))
			}
		}
	}
	fmt.Printf("VERIF-SAMPLE: insert into users with too few columns\n")
	fmt.Printf("VERIF-BOUNDED: evaluations=%d distinct=%d failures=%d\n", evals, distinct, failures)
}
