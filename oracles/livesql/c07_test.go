package livesql

import (
	"fmt"
	"reflect"
	"testing"
	"time"
	"unsafe"

	"github.com/samsarahq/thunder/logger"
	"github.com/samsarahq/thunder/reactive"
	"github.com/samsarahq/thunder/sqlgen"
	"github.com/siddontang/go-mysql/replication"
)

type verifUser struct {
	Id   int64 `sql:",primary"`
	Name string
}

// verifBinlog builds a Binlog fed from an in-memory event channel (no MySQL): the streamer's unexported channel is
// replaced through reflection, the column map of table "users" is pre-populated.
func verifBinlog(events chan *replication.BinlogEvent) (*Binlog, *LiveDB) {
	schema := sqlgen.NewSchema()
	schema.MustRegisterType("users", sqlgen.AutoIncrement, verifUser{})
	ldb := NewLiveDB(sqlgen.NewDB(nil, schema))
	streamer := &replication.BinlogStreamer{}
	f := reflect.ValueOf(streamer).Elem().FieldByName("ch")
	reflect.NewAt(f.Type(), unsafe.Pointer(f.UnsafeAddr())).Elem().Set(reflect.ValueOf(events))
	b := &Binlog{
		db: ldb.DB, tracker: ldb.tracker, database: "db", streamer: streamer,
		tableVersions: map[string]uint64{}, columnMaps: map[string]*columnMap{"users": {expectedColumns: 2, source: []int{0, 1}}},
		logger: logger.New(),
	}
	return b, ldb
}

func verifRowsEvent(kind replication.EventType, rows [][]interface{}) *replication.BinlogEvent {
	return &replication.BinlogEvent{
		Header: &replication.EventHeader{EventType: kind},
		Event:  &replication.RowsEvent{Table: &replication.TableMapEvent{Schema: []byte("db"), Table: []byte("users")}, Rows: rows},
	}
}

// Property clause (C07): "A change event that cannot be decoded must invalidate all live queries on its table rather
// than be dropped." One live query on users (any filter) is registered; each undecodable event must invalidate it.
func TestVerifSearch_C07_DecodeFailure(t *testing.T) {
	bad := map[string]*replication.BinlogEvent{
		"insert with too few columns":    verifRowsEvent(replication.WRITE_ROWS_EVENTv2, [][]interface{}{{int64(1)}}),
		"insert with an undecodable id":  verifRowsEvent(replication.WRITE_ROWS_EVENTv2, [][]interface{}{{"not-a-number", "bob"}}),
		"update with an odd row count":   verifRowsEvent(replication.UPDATE_ROWS_EVENTv2, [][]interface{}{{int64(1), "a"}}),
		"delete with too many columns":   verifRowsEvent(replication.DELETE_ROWS_EVENTv2, [][]interface{}{{int64(1), "a", "x"}}),
		"rows event of an unknown kind":  verifRowsEvent(replication.EventType(250), [][]interface{}{{int64(1), "a"}}),
		"decodable insert that matches":  verifRowsEvent(replication.WRITE_ROWS_EVENTv2, [][]interface{}{{int64(5), "bob"}}),
		"decodable update that matches":  verifRowsEvent(replication.UPDATE_ROWS_EVENTv2, [][]interface{}{{int64(5), "a"}, {int64(5), "b"}}),
	}
	evals, distinct, failures := 0, 0, 0
	for name, ev := range bad {
		evals++
		distinct++
		events := make(chan *replication.BinlogEvent, 4)
		b, ldb := verifBinlog(events)
		tester, err := ldb.Schema.MakeTester("users", sqlgen.Filter{"id": int64(5)})
		if err != nil {
			t.Fatal(err)
		}
		res := reactive.NewResource()
		ldb.tracker.add(&dbResource{table: "users", tester: tester, resource: res})
		go b.RunPollLoop()
		events <- ev
		ok := false
		for i := 0; i < 1000 && !ok; i++ {
			time.Sleep(5 * time.Millisecond)
			ok = res.Invalidated()
		}
		b.mu.Lock()
		b.closed = true
		b.mu.Unlock()
		_ = events // the poll loop goroutine stays blocked on the stream; the test process ends it
		if !ok {
			failures++
			if failures == 1 {
				fmt.Printf("VERIF-FAIL-INPUT: %s\n", verifJSON(map[string]interface{}{"event": name, "detail": "the live query on table users (filter id=5) was not invalidated"}))
			}
		}
	}
	fmt.Printf("VERIF-SAMPLE: insert into users with too few columns\n")
	fmt.Printf("VERIF-BOUNDED: evaluations=%d distinct=%d failures=%d\n", evals, distinct, failures)
}

// Property clause (C07), schema changes: whenever a table is announced with a table id other than the recorded one - larger
// or smaller (ids restart with the server) - the cached column layout is dropped and the new id recorded, so that the next
// write is decoded with the current layout; an announcement with the recorded id keeps the cache.
func TestVerifBounded_C07_TableVersions(t *testing.T) {
	evals, failures := 0, 0
	for _, c := range []struct {
		name      string
		recorded  uint64
		known     bool
		announced uint64
		wantFlush bool
	}{
		{"first announcement", 0, false, 200, true},
		{"same id again", 200, true, 200, false},
		{"larger id", 200, true, 201, true},
		{"smaller id (server restart)", 200, true, 17, true},
		{"id 0 after a known id", 200, true, 0, true},
	} {
		evals++
		events := make(chan *replication.BinlogEvent, 4)
		b, _ := verifBinlog(events)
		if c.known {
			b.tableVersions["users"] = c.recorded
		}
		errs := make(chan error, 1)
		f := reflect.ValueOf(b.streamer).Elem().FieldByName("ech")
		reflect.NewAt(f.Type(), unsafe.Pointer(f.UnsafeAddr())).Elem().Set(reflect.ValueOf(errs))
		done := make(chan struct{})
		go func() { b.RunPollLoop(); close(done) }()
		events <- &replication.BinlogEvent{
			Header: &replication.EventHeader{EventType: replication.TABLE_MAP_EVENT},
			Event:  &replication.TableMapEvent{Schema: []byte("db"), Table: []byte("users"), TableID: c.announced},
		}
		// an event of another database is skipped; once it has been taken from the channel the table map event before it is done
		events <- verifRowsEventIn("otherdb")
		for i := 0; i < 5000 && len(events) > 0; i++ {
			time.Sleep(time.Millisecond)
		}
		time.Sleep(2 * time.Millisecond)
		errs <- fmt.Errorf("end of stream")
		select {
		case <-done:
		case <-time.After(2 * time.Second):
			t.Fatal("poll loop did not stop")
		}
		_, cached := b.columnMaps["users"]
		detail := ""
		if c.wantFlush && cached {
			detail = fmt.Sprintf("table announced with id %d while id %d is recorded: the cached column layout is kept", c.announced, c.recorded)
		}
		if !c.wantFlush && !cached {
			detail = "table announced with the recorded id: the cached column layout was dropped"
		}
		if v, ok := b.tableVersions["users"]; !ok || v != c.announced {
			detail = fmt.Sprintf("recorded table id is %d (present: %v) after an announcement with id %d", v, ok, c.announced)
		}
		if detail != "" {
			failures++
			if failures <= 3 {
				fmt.Printf("VERIF-FAIL-INPUT: %s\n", verifJSON(map[string]interface{}{"case": c.name, "detail": detail}))
				t.Error(detail)
			} else {
				t.Fail()
			}
		}
	}
	fmt.Printf("VERIF-SAMPLE: table users announced with id 17 while id 200 is recorded\n")
	fmt.Printf("VERIF-BOUNDED: evaluations=%d distinct=%d failures=%d\n", evals, evals, failures)
}

func verifRowsEventIn(db string) *replication.BinlogEvent {
	return &replication.BinlogEvent{
		Header: &replication.EventHeader{EventType: replication.WRITE_ROWS_EVENTv2},
		Event:  &replication.RowsEvent{Table: &replication.TableMapEvent{Schema: []byte(db), Table: []byte("users")}, Rows: [][]interface{}{{int64(1), "a"}}},
	}
}
