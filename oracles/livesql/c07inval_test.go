package livesql

// Bounded stand-in for the central clause of C07 that no contract reaches (the row tester and the binlog decoding are
// reflection-driven): "any committed insert, update or delete that changes the rows a live query returns invalidates that
// query ... for all column types, NULLs, pointer and tagged columns and filter shapes" - and, for the harness to mean
// something, a write that touches no row of the query leaves it alone. The real RunPollLoop is fed typed binlog rows events
// (values as the driver produces them, and as go-mysql's replication stream types them) for inserts, deletes and updates
// over a table with 14 column types; one live query per filter of a family is registered with the real tracker and the real
// tester; a query must be invalidated exactly when the row before or the row after the write matches its filter under SQL
// semantics, computed here independently of sqlgen (NULL matches only IS NULL; numbers compare numerically whatever their
// Go width; named strings as strings). Labelled bounded.

import (
	"fmt"
	"math/big"
	"reflect"
	"strings"
	"testing"
	"time"
	"unsafe"

	"github.com/samsarahq/thunder/logger"
	"github.com/samsarahq/thunder/reactive"
	"github.com/samsarahq/thunder/sqlgen"
	"github.com/siddontang/go-mysql/replication"
)

// canonical SQL-side form of a Go value: nil for NULL, else a tagged string
func c07Canon(v interface{}) interface{} {
	if v == nil {
		return nil
	}
	rv := reflect.ValueOf(v)
	for rv.Kind() == reflect.Ptr {
		if rv.IsNil() {
			return nil
		}
		rv = rv.Elem()
	}
	if t, ok := rv.Interface().(time.Time); ok {
		return "time:" + t.UTC().Format("2006-01-02 15:04:05")
	}
	switch rv.Kind() {
	case reflect.Int, reflect.Int8, reflect.Int16, reflect.Int32, reflect.Int64:
		return "num:" + big.NewInt(rv.Int()).String()
	case reflect.Uint, reflect.Uint8, reflect.Uint16, reflect.Uint32, reflect.Uint64:
		return "num:" + new(big.Int).SetUint64(rv.Uint()).String()
	case reflect.Float32, reflect.Float64:
		f := rv.Float()
		if f == float64(int64(f)) && f > -1e15 && f < 1e15 {
			return "num:" + big.NewInt(int64(f)).String()
		}
		return fmt.Sprintf("flt:%v", f)
	case reflect.Bool:
		if rv.Bool() {
			return "num:1"
		}
		return "num:0"
	case reflect.String:
		return "str:" + rv.String()
	case reflect.Slice:
		if rv.IsNil() {
			return nil // thunder writes a nil slice as NULL (an empty, non-nil slice is the empty value)
		}
		if rv.Type().Elem().Kind() == reflect.Uint8 {
			return "str:" + string(rv.Bytes())
		}
	}
	return fmt.Sprintf("other:%#v", rv.Interface())
}

var c07Columns = map[string]string{"id": "Id", "i32": "I32", "u8": "U8", "u32": "U32", "f64": "F64", "f32": "F32", "b": "B", "s": "S", "k": "K",
	"bytes": "Bytes", "t": "T", "p_i": "PI", "p_s": "PS", "p_b": "PB"}

// does the row match the filter under SQL semantics (col = value for non-NULL values, col IS NULL for NULL)?
func c07Matches(f sqlgen.Filter, r *c13Live) bool {
	if r == nil {
		return false
	}
	for col, fv := range f {
		rv := reflect.ValueOf(r).Elem().FieldByName(c07Columns[col]).Interface()
		a, b := c07Canon(fv), c07Canon(rv)
		if a == nil || b == nil {
			if !(a == nil && b == nil) {
				return false
			}
			continue
		}
		if a != b {
			return false
		}
	}
	return true
}

func c07Binlog(events chan *replication.BinlogEvent) (*Binlog, *LiveDB, *sqlgen.Table) {
	schema := sqlgen.NewSchema()
	schema.MustRegisterType("c13", sqlgen.UniqueId, c13Live{})
	ldb := NewLiveDB(sqlgen.NewDB(nil, schema))
	streamer := &replication.BinlogStreamer{}
	f := reflect.ValueOf(streamer).Elem().FieldByName("ch")
	reflect.NewAt(f.Type(), unsafe.Pointer(f.UnsafeAddr())).Elem().Set(reflect.ValueOf(events))
	table := schema.ByName["c13"]
	cm := &columnMap{expectedColumns: len(table.Columns)}
	for i := range table.Columns {
		cm.source = append(cm.source, i)
	}
	b := &Binlog{
		db: ldb.DB, tracker: ldb.tracker, database: "db", streamer: streamer,
		tableVersions: map[string]uint64{}, columnMaps: map[string]*columnMap{"c13": cm},
		logger: logger.New(),
	}
	return b, ldb, table
}

func TestVerifBounded_C07_Invalidation(t *testing.T) {
	events := make(chan *replication.BinlogEvent, 4)
	b, ldb, table := c07Binlog(events)
	go b.RunPollLoop()
	defer func() {
		b.mu.Lock()
		b.closed = true
		b.mu.Unlock()
	}()
	base := c13LiveRows()
	base = append(base, &c13Live{Id: 77}) // zero values in the non-pointer columns, NULL in the pointer columns
	// the family of filters: every column of every row in the Go forms a caller may write, alone and together with the id, and NULLs
	type namedFilter struct {
		f    sqlgen.Filter
		text string
	}
	var filters []namedFilter
	seen := map[string]bool{}
	add := func(f sqlgen.Filter) {
		text := ""
		for _, col := range []string{"id", "i32", "u8", "u32", "f64", "f32", "b", "s", "k", "bytes", "t", "p_i", "p_s", "p_b"} {
			if v, ok := f[col]; ok {
				text += fmt.Sprintf("%s=%T(%v) ", col, v, c07Canon(v))
				if rv := reflect.ValueOf(v); rv.IsValid() && rv.Kind() == reflect.Slice && !rv.IsNil() && rv.Len() == 0 {
					text += "(empty, not nil) "
				}
			}
		}
		if seen[text] {
			return
		}
		seen[text] = true
		filters = append(filters, namedFilter{f, strings.TrimSpace(text)})
	}
	var nilInt *int64
	var nilStr *string
	var nilBool *bool
	for _, r := range base {
		for col, forms := range c13FilterValues(r) {
			for _, v := range forms {
				add(sqlgen.Filter{col: v})
				add(sqlgen.Filter{col: v, "id": r.Id})
			}
		}
	}
	add(sqlgen.Filter{"p_i": nilInt})
	add(sqlgen.Filter{"p_s": nilStr})
	add(sqlgen.Filter{"p_b": nilBool})
	add(sqlgen.Filter{"p_i": nil})
	add(sqlgen.Filter{"p_s": nil, "s": "a"})
	// events: insert / delete of every row, update between every ordered pair of rows; each in two typings
	type change struct {
		kind          string
		before, after *c13Live
	}
	var changes []change
	for _, r := range base {
		changes = append(changes, change{"insert", nil, r}, change{"delete", r, nil})
	}
	for i, x := range base {
		for j, y := range base {
			if i != j {
				changes = append(changes, change{"update", x, y})
			}
		}
	}
	binlogRow := func(r *c13Live, typed bool) []interface{} {
		vals, err := ldb.Schema.UnbuildStruct("c13", r)
		if err != nil {
			t.Fatal(err)
		}
		row := make([]interface{}, len(vals))
		for i, v := range vals {
			row[i] = v
			if typed {
				forms := c13BinlogForms(v, table.Columns[i].Descriptor.Kind)
				row[i] = forms[len(forms)-1]
			}
		}
		return row
	}
	evals, distinct, failures := 0, 0, 0
	fail := func(what, detail string) {
		failures++
		if failures <= 3 {
			fmt.Printf("VERIF-FAIL-INPUT: %s\n", verifJSON(map[string]interface{}{"case": what, "detail": detail}))
			t.Errorf("%s: %s", what, detail)
		} else {
			t.Fail()
		}
	}
	for ci, c := range changes {
		if failures >= 3 {
			break
		}
		typed := ci%2 == 1 // alternate between the driver's own values and replication-stream typing
		distinct++
		// one live query per filter the tester accepts, plus a sentinel that matches every row of the table
		type live struct {
			nf  namedFilter
			res *dbResource
		}
		var lives []live
		for _, nf := range filters {
			tester, err := ldb.Schema.MakeTester("c13", nf.f)
			if err != nil {
				continue // a filter that is rejected never becomes a live query
			}
			r := &dbResource{table: "c13", tester: tester, resource: reactive.NewResource()}
			ldb.tracker.add(r)
			lives = append(lives, live{nf, r})
		}
		sentinelTester, err := ldb.Schema.MakeTester("c13", sqlgen.Filter{})
		if err != nil {
			t.Fatal(err)
		}
		sentinel := &dbResource{table: "c13", tester: sentinelTester, resource: reactive.NewResource()}
		ldb.tracker.add(sentinel)
		var ev *replication.BinlogEvent
		switch c.kind {
		case "insert":
			ev = verifRowsEvent(replication.WRITE_ROWS_EVENTv2, [][]interface{}{binlogRow(c.after, typed)})
		case "delete":
			ev = verifRowsEvent(replication.DELETE_ROWS_EVENTv2, [][]interface{}{binlogRow(c.before, typed)})
		default:
			ev = verifRowsEvent(replication.UPDATE_ROWS_EVENTv2, [][]interface{}{binlogRow(c.before, typed), binlogRow(c.after, typed)})
		}
		ev.Event.(*replication.RowsEvent).Table.Table = []byte("c13")
		events <- ev
		processed := false
		for i := 0; i < 5000 && !processed; i++ {
			time.Sleep(time.Millisecond)
			processed = sentinel.resource.Invalidated()
		}
		what := fmt.Sprintf("%s before=%v after=%v (typed=%v)", c.kind, c07Id(c.before), c07Id(c.after), typed)
		if !processed {
			fail(what, "the event was not delivered to a live query without filter on the table within 5 s")
		} else {
			time.Sleep(3 * time.Millisecond) // invalidations are started as goroutines by processBinlog
			for _, l := range lives {
				evals++
				want := c07Matches(l.nf.f, c.before) || c07Matches(l.nf.f, c.after)
				got := l.res.resource.Invalidated()
				if want && !got {
					// give the goroutine a moment more before deciding
					for i := 0; i < 50 && !got; i++ {
						time.Sleep(time.Millisecond)
						got = l.res.resource.Invalidated()
					}
				}
				if got != want {
					which := "is not invalidated although the write changes its rows"
					if got {
						which = "is invalidated although neither the old nor the new row matches it"
					}
					fail(what, fmt.Sprintf("live query with filter {%s} %s", l.nf.text, which))
					break
				}
			}
		}
		for _, l := range lives {
			ldb.tracker.remove(l.res)
		}
		ldb.tracker.remove(sentinel)
	}
	fmt.Printf("VERIF-SAMPLE: update id=2 -> id=3 in replication-stream typing against 150 live queries over 14 column types\n")
	fmt.Printf("VERIF-BOUNDED: evaluations=%d distinct=%d failures=%d\n", evals, distinct, failures)
}

func c07Id(r *c13Live) interface{} {
	if r == nil {
		return nil
	}
	return r.Id
}
