package livesql

// Bounded stand-in for the two livesql clauses of C13: a filter shipped through its protobuf encoding is either rejected or
// matches exactly the same rows; a row decoded from the change log (typed binlog values) equals the struct that was written.
// The reflection-driven Valuer/Scanner pair is outside the contracts; valueToField/FieldToValue in the middle are proved
// (livesql contracts). Labelled bounded in the evidence.

import (
	"database/sql/driver"
	"fmt"
	"math"
	"reflect"
	"strconv"
	"testing"
	"time"

	"github.com/gogo/protobuf/proto"
	"github.com/samsarahq/thunder/sqlgen"
	"github.com/samsarahq/thunder/thunderpb"
)

type c13Kind string

type c13Live struct {
	Id    int64 `sql:",primary"`
	I32   int32
	U8    uint8
	U32   uint32
	F64   float64
	F32   float32
	B     bool
	S     string
	K     c13Kind
	Bytes []byte
	T     time.Time
	PI    *int64
	PS    *string
	PB    *bool
}

func c13LiveRows() []*c13Live {
	i1, i2 := int64(0), int64(-9)
	s1, s2 := "", "zoë"
	bt, bf := true, false
	t1 := time.Date(2017, 7, 14, 2, 40, 0, 0, time.UTC)
	t2 := time.Date(2001, 2, 3, 4, 5, 6, 0, time.UTC)
	return []*c13Live{
		{Id: 1, T: t1},
		{Id: 2, I32: math.MinInt32, U8: 255, U32: math.MaxUint32, F64: -2.5, F32: 0.5, B: true, S: "a", K: "k", Bytes: []byte{1, 2}, T: t2, PI: &i1, PS: &s1, PB: &bf},
		{Id: 3, I32: math.MaxInt32, U8: 128, U32: 1 << 31, F64: 0.1, F32: 1.25, S: "zoë", K: "", Bytes: []byte{}, T: t1, PI: &i2, PS: &s2, PB: &bt},
		{Id: math.MaxInt64, I32: -1, U8: 1, U32: 7, F64: 1e300, S: "1", K: "true", T: t2},
		{Id: math.MinInt64, S: "a", T: t1, PI: &i1},
	}
}

func c13FilterValues(r *c13Live) map[string][]interface{} {
	// for every column: the row's own value in the Go representations a caller may write (value, pointer, named / plain type)
	m := map[string][]interface{}{
		"id": {r.Id, &r.Id, int(r.Id)}, "i32": {r.I32, int64(r.I32), &r.I32}, "u8": {r.U8, int64(r.U8)}, "u32": {r.U32, uint64(r.U32)},
		"f64": {r.F64, &r.F64}, "f32": {r.F32}, "b": {r.B, &r.B}, "s": {r.S, &r.S}, "k": {r.K, string(r.K)},
		"bytes": {r.Bytes}, "t": {r.T, &r.T}, "p_i": {r.PI}, "p_s": {r.PS}, "p_b": {r.PB},
	}
	if r.PI != nil {
		m["p_i"] = append(m["p_i"], *r.PI)
	}
	if r.PS != nil {
		m["p_s"] = append(m["p_s"], *r.PS)
	}
	return m
}

func c13Wire(p *thunderpb.SQLFilter) (*thunderpb.SQLFilter, error) {
	b, err := proto.Marshal(p)
	if err != nil {
		return nil, err
	}
	out := &thunderpb.SQLFilter{}
	return out, proto.Unmarshal(b, out)
}

func TestVerifBounded_C13_FilterWire(t *testing.T) {
	schema := sqlgen.NewSchema()
	schema.MustRegisterType("c13", sqlgen.UniqueId, c13Live{})
	rows := c13LiveRows()
	// plus a row holding zero values in the non-pointer columns (what a NULL wrongly decoded as a zero value would match)
	rows = append(rows, &c13Live{Id: 77})
	evals, distinct, failures := 0, 0, 0
	fail := func(detail string, f sqlgen.Filter) {
		failures++
		if failures <= 3 {
			fmt.Printf("VERIF-FAIL-INPUT: %s\n", verifJSON(map[string]interface{}{"filter": fmt.Sprintf("%#v", f), "detail": detail}))
		}
		if failures <= 3 {
			t.Error(detail)
		} else {
			t.Fail()
		}
	}
	check := func(f sqlgen.Filter) {
		evals++
		before, err := schema.MakeTester("c13", f)
		if err != nil {
			return
		}
		p, err := FilterToProto(schema, "c13", f)
		if err != nil {
			return // rejected: allowed
		}
		p2, err := c13Wire(p)
		if err != nil {
			return
		}
		table, f2, err := FilterFromProto(schema, p2)
		if err != nil {
			return // rejected: allowed
		}
		if table != "c13" {
			fail("table name changed on the wire: "+table, f)
			return
		}
		after, err := schema.MakeTester(table, f2)
		if err != nil {
			fail("decoded filter is not accepted by MakeTester: "+err.Error(), f)
			return
		}
		for _, r := range rows {
			if before.Test(r) != after.Test(r) {
				fail(fmt.Sprintf("filter %v matches row id=%d: %v before the wire, %v after (decoded filter %#v)", f, r.Id, before.Test(r), after.Test(r), f2), f)
				return
			}
		}
	}
	for _, r := range rows {
		distinct++
		vals := c13FilterValues(r)
		for col, forms := range vals {
			for _, v := range forms {
				check(sqlgen.Filter{col: v})
				// and together with the id
				check(sqlgen.Filter{col: v, "id": r.Id})
			}
		}
		// a NULL filter value on every column, as a nil interface and (where the column has a pointer form) a typed nil pointer:
		// rejected, or matching exactly the rows it matched before the wire
		for col := range vals {
			check(sqlgen.Filter{col: nil})
		}
		var nilInt *int64
		var nilStr *string
		var nilTime *time.Time
		check(sqlgen.Filter{"p_i": nilInt})
		check(sqlgen.Filter{"p_s": nilStr})
		check(sqlgen.Filter{"t": nilTime})
		check(sqlgen.Filter{"id": nilInt})
		check(sqlgen.Filter{})
		check(nil)
	}
	fmt.Printf("VERIF-SAMPLE: Filter{\"u32\": uint64(4294967295), \"id\": 2}\n")
	fmt.Printf("VERIF-BOUNDED: evaluations=%d distinct=%d failures=%d\n", evals, distinct, failures)
}

// the typed values a binlog row event carries for a stored column value (go-mysql replication: integers in the column's own
// width, unsigned columns as the signed value of the same bits; DATETIME as text; strings as string, blobs as []byte)
func c13BinlogForms(v driver.Value, kind reflect.Kind) []interface{} {
	forms := []interface{}{v}
	switch x := v.(type) {
	case int64:
		switch kind {
		case reflect.Int8, reflect.Uint8:
			forms = append(forms, int8(x))
		case reflect.Int16, reflect.Uint16:
			forms = append(forms, int16(x))
		case reflect.Int32, reflect.Uint32:
			forms = append(forms, int32(x))
		}
	case float64:
		if kind == reflect.Float32 {
			forms = append(forms, float32(x))
		}
	case bool:
		if x {
			forms = append(forms, int8(1))
		} else {
			forms = append(forms, int8(0))
		}
	case string:
		forms = append(forms, []byte(x))
	case []byte:
		forms = append(forms, string(x))
	case time.Time:
		forms = append(forms, x.Format("2006-01-02 15:04:05"))
	}
	return forms
}

func TestVerifBounded_C13_BinlogRow(t *testing.T) {
	schema := sqlgen.NewSchema()
	schema.MustRegisterType("c13", sqlgen.UniqueId, c13Live{})
	table := schema.ByName["c13"]
	n := len(table.Columns)
	// three database layouts: the struct's own order, the reverse order, and the struct's order with an extra database column in front
	type layout struct {
		name string
		cm   *columnMap
		pos  func(i int) int // where struct column i sits in the binlog row
	}
	var layouts []layout
	ident := &columnMap{expectedColumns: n}
	rev := &columnMap{expectedColumns: n}
	extra := &columnMap{expectedColumns: n + 1}
	for i := 0; i < n; i++ {
		ident.source = append(ident.source, i)
		rev.source = append(rev.source, n-1-i)
		extra.source = append(extra.source, i+1)
	}
	layouts = append(layouts, layout{"same order", ident, func(i int) int { return i }},
		layout{"reversed", rev, func(i int) int { return n - 1 - i }},
		layout{"extra first column", extra, func(i int) int { return i + 1 }})
	evals, distinct, failures := 0, 0, 0
	for _, lay := range layouts[1:] {
		for _, r := range c13LiveRows() {
			vals, err := schema.UnbuildStruct("c13", r)
			if err != nil {
				t.Fatal(err)
			}
			row := make([]interface{}, lay.cm.expectedColumns)
			for k := range row {
				row[k] = int64(777) // content of a column the struct does not map
			}
			for i, v := range vals {
				row[lay.pos(i)] = v
			}
			evals++
			got, err := parseBinlogRow(table, row, lay.cm)
			detail := ""
			if err != nil {
				detail = fmt.Sprintf("layout %q: %v", lay.name, err)
			} else if !c13LiveEqual(r, got.(*c13Live)) {
				detail = fmt.Sprintf("layout %q: decoded %+v, written %+v", lay.name, *got.(*c13Live), *r)
			}
			if detail != "" {
				failures++
				if failures <= 3 {
					fmt.Printf("VERIF-FAIL-INPUT: %s\n", verifJSON(map[string]interface{}{"row": strconv.FormatInt(r.Id, 10), "detail": detail}))
					t.Error(detail)
				} else {
					t.Fail()
				}
			}
		}
	}
	cm := ident
	for _, r := range c13LiveRows() {
		distinct++
		vals, err := schema.UnbuildStruct("c13", r)
		if err != nil {
			t.Fatal(err)
		}
		sent := make([]interface{}, len(vals))
		for i, v := range vals {
			sent[i] = v
		}
		for i := range sent {
			for _, form := range c13BinlogForms(sent[i], table.Columns[i].Descriptor.Kind) {
				row := append([]interface{}{}, sent...)
				row[i] = form
				evals++
				got, err := parseBinlogRow(table, row, cm)
				detail := ""
				if err != nil {
					detail = fmt.Sprintf("column %s as %T(%v): %v", table.Columns[i].Name, form, form, err)
				} else if !c13LiveEqual(r, got.(*c13Live)) {
					detail = fmt.Sprintf("column %s as %T(%v): decoded %+v, written %+v", table.Columns[i].Name, form, form, *got.(*c13Live), *r)
				}
				if detail != "" {
					failures++
					if failures <= 3 {
						fmt.Printf("VERIF-FAIL-INPUT: %s\n", verifJSON(map[string]interface{}{"row": strconv.FormatInt(r.Id, 10), "detail": detail}))
					}
					if failures <= 3 {
						t.Error(detail)
					} else {
						t.Fail()
					}
				}
			}
		}
	}
	fmt.Printf("VERIF-SAMPLE: u8=255 as int8(-1)\n")
	fmt.Printf("VERIF-BOUNDED: evaluations=%d distinct=%d failures=%d\n", evals, distinct, failures)
}

func c13LiveEqual(a, b *c13Live) bool {
	ta, tb := a.T, b.T
	ca, cb := *a, *b
	ca.T, cb.T = time.Time{}, time.Time{}
	return ta.Equal(tb) && reflect.DeepEqual(ca, cb)
}
