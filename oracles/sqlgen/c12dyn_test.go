package sqlgen

// Bounded stand-in for C12 on handles restricted by a DYNAMIC limit, and inside transactions (a callback that yields the limit filter per request and
// table; rejected calls are vetoed by a second callback), alone and together with a shard limit: the operation family of
// c12_test.go - single and bulk writes with the non-complying row at every position and chunk size, reads with and without
// batching and with caller-supplied WHERE clauses - against the in-memory driver; every statement received must be confined
// to the limit, every non-complying call must fail. Labelled bounded.

import (
	"context"
	"database/sql"
	"fmt"
	"testing"

	"github.com/samsarahq/thunder/batch"
)

func c12dynFamily(t *testing.T, db *DB, handle string, ctx context.Context) (int, int, int) {
	evals, distinct, failures := 0, 0, 0
	// run one operation; comply says whether the call is confined to the shard
	run := func(label string, comply bool, op func() error) {
		evals++
		c10Drv.mu.Lock()
		c10Drv.execs = nil
		c10Drv.mu.Unlock()
		err := op()
		c10Drv.mu.Lock()
		execs := append([]c10Exec{}, c10Drv.execs...)
		c10Drv.mu.Unlock()
		detail := ""
		for _, e := range execs {
			if ok, why := c12Confined(e); !ok {
				detail = fmt.Sprintf("statement %q with arguments %v reached the database: %s", e.q, e.args, why)
				break
			}
		}
		if detail == "" && !comply && err == nil {
			detail = "the call does not comply with the shard limit and returns no error"
		}
		// (a compliant call may still be rejected - e.g. DeleteRow identifies the row by its primary key only, so on a sharded
		// handle it needs the shard column in the key; the property demands rejection of what does not comply, not acceptance)
		if detail != "" {
			failures++
			if failures <= 3 {
				fmt.Printf("VERIF-FAIL-INPUT: %s\n", c10JSON(map[string]interface{}{"handle": handle, "operation": label, "detail": detail}))
				t.Errorf("%s: %s", label, detail)
			} else {
				t.Fail()
			}
		}
	}
	item := func(id, org int64) *c12Item { return &c12Item{Id: id, OrgId: org, Name: fmt.Sprint("n", id)} }
	for _, org := range []int64{1, 2} {
		org := org
		distinct++
		run(fmt.Sprintf("InsertRow(org=%d)", org), org == c12Org, func() error { _, err := db.InsertRow(ctx, item(10, org)); return err })
		run(fmt.Sprintf("UpsertRow(org=%d)", org), org == c12Org, func() error { _, err := db.UpsertRow(ctx, item(10, org)); return err })
		run(fmt.Sprintf("UpdateRow(org=%d)", org), org == c12Org, func() error { return db.UpdateRow(ctx, item(1, org)) })
		run(fmt.Sprintf("DeleteRow(org=%d)", org), org == c12Org, func() error { return db.DeleteRow(ctx, item(1, org)) })
	}
	// bulk operations: n rows, row v (if any) outside the shard, every chunk size
	for n := 1; n <= 5; n++ {
		for v := -1; v < n; v++ {
			for chunk := 1; chunk <= 3; chunk++ {
				var rows []*c12Item
				for k := 0; k < n; k++ {
					org := c12Org
					if k == v {
						org = 2
					}
					rows = append(rows, item(int64(100+k), org))
				}
				distinct++
				run(fmt.Sprintf("InsertRows(n=%d, outside=%d, chunk=%d)", n, v, chunk), v < 0, func() error { return db.InsertRows(ctx, rows, chunk) })
				run(fmt.Sprintf("UpsertRows(n=%d, outside=%d, chunk=%d)", n, v, chunk), v < 0, func() error { return db.UpsertRows(ctx, rows, chunk) })
			}
		}
	}
	// reads: with and without batching
	filters := []struct {
		f      Filter
		comply bool
	}{
		{Filter{"org_id": c12Org}, true}, {Filter{"org_id": c12Org, "id": int64(1)}, true}, {Filter{"org_id": c12Org, "name": "a"}, true},
		{Filter{"id": int64(1)}, false}, {Filter{"org_id": int64(2)}, false}, {Filter{}, false}, {Filter{"name": "a", "id": int64(3)}, false},
	}
	for _, fc := range filters {
		fc := fc
		distinct++
		run(fmt.Sprintf("Query(%v)", fc.f), fc.comply, func() error { var out []*c12Item; return db.Query(ctx, &out, fc.f, nil) })
		run(fmt.Sprintf("Query(%v) batched", fc.f), fc.comply, func() error {
			var out []*c12Item
			return db.Query(batch.WithBatching(ctx), &out, fc.f, nil)
		})
		run(fmt.Sprintf("Count(%v)", fc.f), fc.comply, func() error { _, err := db.Count(ctx, &c12Item{}, fc.f); return err })
		run(fmt.Sprintf("QueryRow(%v)", fc.f), fc.comply, func() error {
			var out *c12Item
			err := db.QueryRow(ctx, &out, fc.f, nil)
			if err == sql.ErrNoRows {
				return nil
			}
			return err
		})
	}
	// a caller-supplied WHERE (SelectOptions) is AND-ed with the checked filter as a whole: an OR inside it must not escape
	for _, fc := range filters {
		fc := fc
		for _, w := range []struct {
			where  string
			values []interface{}
		}{
			{"name = ?", []interface{}{"c"}},
			{"name = ? OR id = ?", []interface{}{"c", int64(3)}},
			{"id = ? OR name = ? AND id = ?", []interface{}{int64(3), "c", int64(3)}},
			{"(name = ? OR id = ?) AND id = ?", []interface{}{"c", int64(3), int64(3)}},
		} {
			w := w
			distinct++
			run(fmt.Sprintf("Query(%v, Where: %q)", fc.f, w.where), fc.comply, func() error {
				var out []*c12Item
				return db.Query(ctx, &out, fc.f, &SelectOptions{Where: w.where, Values: w.values})
			})
			run(fmt.Sprintf("QueryRow(%v, Where: %q)", fc.f, w.where), fc.comply, func() error {
				var out *c12Item
				err := db.QueryRow(ctx, &out, fc.f, &SelectOptions{Where: w.where, Values: w.values})
				if err == sql.ErrNoRows {
					return nil
				}
				return err
			})
		}
	}
	// two compliant and one non-compliant query racing into one batch: the non-compliant one fails, the statement stays confined
	run("three concurrent batched queries, one outside the shard", true, func() error {
		bctx := batch.WithBatching(ctx)
		errs := make(chan error, 3)
		for _, f := range []Filter{{"org_id": c12Org, "id": int64(1)}, {"org_id": c12Org, "id": int64(2)}, {"id": int64(3)}} {
			f := f
			go func() { var out []*c12Item; errs <- db.Query(bctx, &out, f, nil) }()
		}
		rejected := 0
		for k := 0; k < 3; k++ {
			if err := <-errs; err != nil {
				rejected++
			}
		}
		if rejected != 1 {
			return fmt.Errorf("db requires: %d of 3 queries rejected, expected exactly the one outside the shard", rejected)
		}
		return nil
	})
	return evals, distinct, failures
}

func TestVerifBounded_C12_DynamicLimit(t *testing.T) {
	base := c12Setup(t) // shard-limited handle; its unrestricted parent is rebuilt below
	limit := DynamicLimit{
		GetLimitFilter:        func(ctx context.Context, table string) Filter { return Filter{"org_id": c12Org} },
		ShouldContinueOnError: func(err error, table string) bool { return false },
	}
	plain := NewDB(base.Conn, base.Schema)
	dyn, err := plain.WithDynamicLimit(limit)
	if err != nil {
		t.Fatal(err)
	}
	both, err := base.WithDynamicLimit(limit)
	if err != nil {
		t.Fatal(err)
	}
	// a dynamic limit that yields no filter for the table adds nothing - and takes nothing away from the shard limit
	bothNil, err := base.WithDynamicLimit(DynamicLimit{
		GetLimitFilter:        func(ctx context.Context, table string) Filter { return nil },
		ShouldContinueOnError: func(err error, table string) bool { return false },
	})
	if err != nil {
		t.Fatal(err)
	}
	evals, distinct, failures := 0, 0, 0
	for _, h := range []struct {
		name string
		db   *DB
		tx   bool
	}{{"dynamic limit", dyn, false}, {"shard limit and dynamic limit", both, false}, {"shard limit and a dynamic limit that yields no filter", bothNil, false}, {"shard limit, inside a transaction", base, true}, {"dynamic limit, inside a transaction", dyn, true}} {
		ctx := context.Background()
		if h.tx {
			txctx, tx, err := h.db.WithTx(ctx)
			if err != nil {
				t.Fatal(err)
			}
			defer tx.Rollback()
			ctx = txctx
		}
		e, d, f := c12dynFamily(t, h.db, h.name, ctx)
		evals, distinct, failures = evals+e, distinct+d, failures+f
	}
	fmt.Printf("VERIF-SAMPLE: UpsertRows(n=4, outside=3, chunk=2) on a handle with a dynamic limit\n")
	fmt.Printf("VERIF-BOUNDED: evaluations=%d distinct=%d failures=%d\n", evals, distinct, failures)
}

var _ = sql.ErrNoRows
var _ = batch.WithBatching
