package sqlgen

// Bounded stand-in for C10 (the WHERE text and what a database does with it are outside any contract): an in-memory
// database/sql driver with SQL comparison semantics (three-valued NULL, numeric comparison across integer types, text
// vs. binary) executes the statements thunder generates. Every set of filters is run twice through the real code - one
// BaseQuery per filter without batching, and the batch function (makeBatchQuery -> driver -> matcher -> dispatch) on all
// of them at once - and each filter must get exactly the rows it gets on its own. Labelled bounded in the evidence.

import (
	"bytes"
	"context"
	"database/sql"
	"database/sql/driver"
	"encoding/json"
	"fmt"
	"io"
	"reflect"
	"sort"
	"strconv"
	"strings"
	"sync"
	"testing"
	"time"
)

// ---------------------------------------------------------------- fake driver

type c10Table struct {
	columns []string
	rows    [][]driver.Value
}

type c10Exec struct {
	q    string
	args []driver.Value
}

type c10Driver struct {
	mu         sync.Mutex
	tables     map[string]*c10Table
	statements []string
	execs      []c10Exec // statements with their arguments: writes through Exec, reads through Query
}

var c10Drv = &c10Driver{tables: map[string]*c10Table{}}
var c10Once sync.Once

func (d *c10Driver) Open(name string) (driver.Conn, error) { return &c10Conn{d}, nil }

type c10Conn struct{ d *c10Driver }

func (c *c10Conn) Prepare(q string) (driver.Stmt, error) { return &c10Stmt{c.d, q}, nil }
func (c *c10Conn) Close() error                          { return nil }
func (c *c10Conn) Begin() (driver.Tx, error)             { return c10Tx{}, nil }

type c10Tx struct{}

func (c10Tx) Commit() error   { return nil }
func (c10Tx) Rollback() error { return nil }

type c10Stmt struct {
	d *c10Driver
	q string
}

func (s *c10Stmt) Close() error  { return nil }
func (s *c10Stmt) NumInput() int { return -1 }
func (s *c10Stmt) Exec(args []driver.Value) (driver.Result, error) {
	s.d.mu.Lock()
	defer s.d.mu.Unlock()
	s.d.statements = append(s.d.statements, s.q)
	s.d.execs = append(s.d.execs, c10Exec{s.q, append([]driver.Value{}, args...)})
	return driver.RowsAffected(1), nil
}

// SQL comparison of a stored value with a parameter: NULL on either side is never equal (three-valued logic collapses
// to "no match" in a WHERE clause); numbers compare numerically, text and binary by bytes, booleans as 0/1.
func c10SQLEqual(a, b driver.Value) bool {
	if a == nil || b == nil {
		return false
	}
	norm := func(v driver.Value) interface{} {
		switch x := v.(type) {
		case int64:
			return float64(x)
		case float64:
			return x
		case bool:
			if x {
				return float64(1)
			}
			return float64(0)
		case []byte:
			return string(x)
		case string:
			return x
		case time.Time:
			return x.UTC().Format("2006-01-02 15:04:05.999999")
		}
		return fmt.Sprintf("%v", v)
	}
	na, nb := norm(a), norm(b)
	if fa, ok := na.(float64); ok {
		switch y := nb.(type) {
		case float64:
			return fa == y
		case string:
			f, err := strconv.ParseFloat(y, 64)
			return err == nil && f == fa
		}
	}
	if sa, ok := na.(string); ok {
		switch y := nb.(type) {
		case string:
			return sa == y // binary collation assumed: with MySQL's default case-insensitive collations the Go-side matcher can differ (not modelled)
		case float64:
			f, err := strconv.ParseFloat(sa, 64)
			return err == nil && f == y
		}
	}
	return false
}

type c10Pred func(row map[string]driver.Value) bool

// The WHERE grammar thunder emits - disjunctions of `col IN (?, ...)`, `(a=? AND b=?)`, `a=?`, the unbatched
// `a = ? AND b IS ?` - and what a caller may add through SelectOptions.Where: any nesting of parentheses, AND and OR over
// those atoms, with SQL's precedence (AND binds tighter than OR). Placeholders are bound left to right.
func c10ParseWhere(clause string, args []driver.Value) (c10Pred, error) {
	for _, kw := range []string{" ORDER BY ", " LIMIT ", " FOR UPDATE"} {
		if i := strings.Index(clause, kw); i >= 0 {
			clause = clause[:i]
		}
	}
	var toks []string
	for i := 0; i < len(clause); {
		c := clause[i]
		switch {
		case c == ' ':
			i++
		case strings.ContainsRune("(),?=", rune(c)):
			toks = append(toks, string(c))
			i++
		default:
			j := i
			for j < len(clause) && clause[j] != ' ' && !strings.ContainsRune("(),?=", rune(clause[j])) {
				j++
			}
			toks = append(toks, clause[i:j])
			i = j
		}
	}
	pos, next := 0, 0
	peek := func() string {
		if pos < len(toks) {
			return toks[pos]
		}
		return ""
	}
	eat := func(t string) bool {
		if strings.EqualFold(peek(), t) {
			pos++
			return true
		}
		return false
	}
	take := func() (driver.Value, error) {
		if next >= len(args) {
			return nil, fmt.Errorf("fake driver: too few arguments for %q", clause)
		}
		next++
		return args[next-1], nil
	}
	var parseOr func() (c10Pred, error)
	parseAtom := func() (c10Pred, error) {
		if eat("(") {
			p, err := parseOr()
			if err != nil {
				return nil, err
			}
			if !eat(")") {
				return nil, fmt.Errorf("fake driver: missing ) in %q", clause)
			}
			return p, nil
		}
		col := peek()
		if col == "" || strings.ContainsAny(col, "(),?=") {
			return nil, fmt.Errorf("fake driver: unsupported condition at %q in %q", col, clause)
		}
		pos++
		switch {
		case eat("IN"):
			if !eat("(") {
				return nil, fmt.Errorf("fake driver: IN without list in %q", clause)
			}
			var vals []driver.Value
			for {
				if !eat("?") {
					return nil, fmt.Errorf("fake driver: unsupported IN list in %q", clause)
				}
				v, err := take()
				if err != nil {
					return nil, err
				}
				vals = append(vals, v)
				if eat(",") {
					continue
				}
				break
			}
			if !eat(")") {
				return nil, fmt.Errorf("fake driver: missing ) after IN list in %q", clause)
			}
			return func(row map[string]driver.Value) bool {
				for _, v := range vals {
					if c10SQLEqual(row[col], v) {
						return true
					}
				}
				return false
			}, nil
		case eat("IS"):
			if eat("NULL") {
				return func(row map[string]driver.Value) bool { return row[col] == nil }, nil
			}
			if !eat("?") {
				return nil, fmt.Errorf("fake driver: unsupported IS in %q", clause)
			}
			v, err := take()
			if err != nil {
				return nil, err
			}
			return func(row map[string]driver.Value) bool {
				if v == nil {
					return row[col] == nil
				}
				return c10SQLEqual(row[col], v)
			}, nil
		case eat("="):
			if !eat("?") {
				return nil, fmt.Errorf("fake driver: unsupported comparison in %q", clause)
			}
			v, err := take()
			if err != nil {
				return nil, err
			}
			return func(row map[string]driver.Value) bool { return c10SQLEqual(row[col], v) }, nil
		}
		return nil, fmt.Errorf("fake driver: unsupported condition on %q in %q", col, clause)
	}
	parseAnd := func() (c10Pred, error) {
		var conj []c10Pred
		for {
			p, err := parseAtom()
			if err != nil {
				return nil, err
			}
			conj = append(conj, p)
			if !eat("AND") {
				break
			}
		}
		return func(row map[string]driver.Value) bool {
			for _, p := range conj {
				if !p(row) {
					return false
				}
			}
			return true
		}, nil
	}
	parseOr = func() (c10Pred, error) {
		var disj []c10Pred
		for {
			p, err := parseAnd()
			if err != nil {
				return nil, err
			}
			disj = append(disj, p)
			if !eat("OR") {
				break
			}
		}
		return func(row map[string]driver.Value) bool {
			for _, p := range disj {
				if p(row) {
					return true
				}
			}
			return false
		}, nil
	}
	pred, err := parseOr()
	if err != nil {
		return nil, err
	}
	if pos != len(toks) {
		return nil, fmt.Errorf("fake driver: trailing %q in %q", strings.Join(toks[pos:], " "), clause)
	}
	if next != len(args) {
		return nil, fmt.Errorf("fake driver: %d arguments for %d placeholders in %q", len(args), next, clause)
	}
	return pred, nil
}

func (s *c10Stmt) Query(args []driver.Value) (driver.Rows, error) {
	s.d.mu.Lock()
	defer s.d.mu.Unlock()
	s.d.statements = append(s.d.statements, s.q)
	s.d.execs = append(s.d.execs, c10Exec{s.q, append([]driver.Value{}, args...)})
	q := s.q
	if strings.HasPrefix(q, "SELECT COUNT(*) FROM ") {
		// COUNT: the number of rows the WHERE clause selects
		rest := strings.TrimPrefix(q, "SELECT COUNT(*) FROM ")
		tableName, where := rest, ""
		if j := strings.Index(rest, " WHERE "); j >= 0 {
			tableName, where = rest[:j], rest[j+len(" WHERE "):]
		}
		t := s.d.tables[strings.TrimSpace(tableName)]
		if t == nil {
			return nil, fmt.Errorf("fake driver: unknown table %q", tableName)
		}
		pred := c10Pred(func(map[string]driver.Value) bool { return true })
		if where != "" {
			var err error
			if pred, err = c10ParseWhere(where, args); err != nil {
				return nil, err
			}
		}
		n := int64(0)
		for _, r := range t.rows {
			m := map[string]driver.Value{}
			for k, c := range t.columns {
				m[c] = r[k]
			}
			if pred(m) {
				n++
			}
		}
		return &c10Rows{cols: []string{"COUNT(*)"}, rows: [][]driver.Value{{n}}}, nil
	}
	if !strings.HasPrefix(q, "SELECT ") {
		return nil, fmt.Errorf("fake driver: unsupported statement %q", q)
	}
	rest := strings.TrimPrefix(q, "SELECT ")
	i := strings.Index(rest, " FROM ")
	if i < 0 {
		return nil, fmt.Errorf("fake driver: no FROM in %q", q)
	}
	cols := strings.Split(rest[:i], ", ")
	rest = rest[i+len(" FROM "):]
	tableName, where := rest, ""
	if j := strings.Index(rest, " WHERE "); j >= 0 {
		tableName, where = rest[:j], rest[j+len(" WHERE "):]
	}
	t := s.d.tables[strings.TrimSpace(tableName)]
	if t == nil {
		return nil, fmt.Errorf("fake driver: unknown table %q", tableName)
	}
	pred := c10Pred(func(map[string]driver.Value) bool { return true })
	if where != "" {
		var err error
		if pred, err = c10ParseWhere(where, args); err != nil {
			return nil, err
		}
	} else if len(args) != 0 {
		return nil, fmt.Errorf("fake driver: arguments without WHERE in %q", q)
	}
	out := &c10Rows{cols: cols}
	for _, r := range t.rows {
		m := map[string]driver.Value{}
		for k, c := range t.columns {
			m[c] = r[k]
		}
		if pred(m) {
			var vals []driver.Value
			for _, c := range cols {
				vals = append(vals, m[c])
			}
			out.rows = append(out.rows, vals)
		}
	}
	return out, nil
}

type c10Rows struct {
	cols []string
	rows [][]driver.Value
	pos  int
}

func (r *c10Rows) Columns() []string { return r.cols }
func (r *c10Rows) Close() error      { return nil }
func (r *c10Rows) Next(dest []driver.Value) error {
	if r.pos >= len(r.rows) {
		return io.EOF
	}
	copy(dest, r.rows[r.pos])
	r.pos++
	return nil
}

// ---------------------------------------------------------------- schema and data

type c10City string

type c10User struct {
	Id    int64 `sql:",primary"`
	Name  string
	Age   *int64
	City  c10City
	Flag  bool
	Score int32
	Nick  string `sql:",implicitnull"`
}

func c10Setup(t *testing.T) *DB {
	c10Once.Do(func() { sql.Register("c10fake", c10Drv) })
	conn, err := sql.Open("c10fake", "")
	if err != nil {
		t.Fatal(err)
	}
	schema := NewSchema()
	if err := schema.RegisterType("users", UniqueId, c10User{}); err != nil {
		t.Fatal(err)
	}
	i := func(n int64) driver.Value { return n }
	c10Drv.tables["users"] = &c10Table{
		columns: []string{"id", "name", "age", "city", "flag", "score", "nick"},
		rows: [][]driver.Value{
			{i(1), "alice", i(30), "sf", i(1), i(10), "al"},
			{i(2), "bob", nil, "sf", i(0), i(20), nil},
			{i(3), "bob", i(30), "nyc", i(1), i(10), "bo"},
			{i(4), "carol", i(41), "nyc", i(0), i(-5), nil},
			{i(5), "", nil, "", i(0), i(0), "x"},
		},
	}
	return NewDB(conn, schema)
}

type c10Named struct {
	label  string
	filter Filter
}

func c10Filters() []c10Named {
	one, thirty := int64(1), int64(30)
	var nilAge *int64
	bob := "bob"
	return []c10Named{
		{"{}", Filter{}},
		{"id:int64(1)", Filter{"id": int64(1)}},
		{"id:int(1)", Filter{"id": int(1)}},
		{"id:int32(3)", Filter{"id": int32(3)}},
		{"id:&int64(1)", Filter{"id": &one}},
		{"id:int64(9)", Filter{"id": int64(9)}},
		{"name:bob", Filter{"name": "bob"}},
		{"name:&bob", Filter{"name": &bob}},
		{"name:empty", Filter{"name": ""}},
		{"nick:empty (implicit null)", Filter{"nick": ""}},
		{"nick:al", Filter{"nick": "al"}},
		{"nick:empty,name:bob", Filter{"nick": "", "name": "bob"}},
		{"age:nil", Filter{"age": nil}},
		{"age:(*int64)(nil)", Filter{"age": nilAge}},
		{"age:int64(30)", Filter{"age": int64(30)}},
		{"age:&30", Filter{"age": &thirty}},
		{"city:c10City(sf)", Filter{"city": c10City("sf")}},
		{"city:string(sf)", Filter{"city": "sf"}},
		{"flag:true", Filter{"flag": true}},
		{"score:int32(10)", Filter{"score": int32(10)}},
		{"score:int64(10)", Filter{"score": int64(10)}},
		{"name:bob,age:30", Filter{"name": "bob", "age": int64(30)}},
		{"name:bob,age:nil", Filter{"name": "bob", "age": nil}},
		{"city:nyc,flag:false", Filter{"city": c10City("nyc"), "flag": false}},
	}
}

func c10Ids(rows []interface{}) []int64 {
	ids := []int64{}
	for _, r := range rows {
		ids = append(ids, r.(*c10User).Id)
	}
	sort.Slice(ids, func(a, b int) bool { return ids[a] < ids[b] })
	return ids
}

func c10JSON(v interface{}) string {
	var b bytes.Buffer
	json.NewEncoder(&b).Encode(v)
	return strings.TrimSpace(b.String())
}

func TestVerifBounded_C10_Batching(t *testing.T) {
	db := c10Setup(t)
	ctx := context.Background()
	filters := c10Filters()
	// each filter on its own (no batching): the reference the property names
	alone := make([][]int64, len(filters))
	aloneErr := make([]error, len(filters))
	queries := make([]*BaseSelectQuery, len(filters))
	for i, f := range filters {
		var dst []*c10User
		q, err := db.Schema.MakeSelect(&dst, f.filter, nil)
		if err != nil {
			aloneErr[i] = err
			continue
		}
		queries[i] = q
		rows, err := db.BaseQuery(ctx, q)
		if err != nil {
			aloneErr[i] = err
			continue
		}
		alone[i] = c10Ids(rows)
	}
	evals, distinct, failures := 0, 0, 0
	classes := map[string]bool{}
	fail := func(set []int, k int, got []int64, detail string) {
		failures++
		class := "other"
		f := filters[set[k]].filter
		for col, v := range f {
			rv := reflect.ValueOf(v)
			if v == nil || (rv.Kind() == reflect.Ptr && rv.IsNil()) {
				class = "null-filter-value"
			}
			_ = col
		}
		classes[class] = true
		if failures <= 3 {
			labels := []string{}
			for _, s := range set {
				labels = append(labels, filters[s].label)
			}
			fmt.Printf("VERIF-FAIL-INPUT: %s\n", c10JSON(map[string]interface{}{"batched_filters": labels, "filter": filters[set[k]].label, "alone": alone[set[k]], "batched": got, "detail": detail, "class": class}))
			t.Errorf("filters %v: %s gets %v on its own and %v in the batch (%s)", labels, filters[set[k]].label, alone[set[k]], got, detail)
		} else {
			t.Fail()
		}
	}
	runSet := func(set []int) {
		var items []interface{}
		for _, s := range set {
			if queries[s] == nil {
				return
			}
			items = append(items, queries[s])
		}
		evals++
		res, err := db.batchFetch.Many(ctx, items)
		if err != nil {
			for k := range set {
				if aloneErr[set[k]] == nil {
					fail(set, k, nil, "the batch fails: "+err.Error())
					return
				}
			}
			return
		}
		if len(res) != len(items) {
			fail(set, 0, nil, fmt.Sprintf("%d results for %d queries", len(res), len(items)))
			return
		}
		for k := range set {
			got := c10Ids(res[k].([]interface{}))
			if aloneErr[set[k]] != nil {
				continue
			}
			if !reflect.DeepEqual(got, alone[set[k]]) {
				fail(set, k, got, "rows differ")
			}
		}
	}
	for a := range filters {
		distinct++
		runSet([]int{a})
		for b := range filters {
			runSet([]int{a, b})
		}
	}
	// triples over a spread of the family
	for a := 0; a < len(filters); a += 2 {
		for b := 1; b < len(filters); b += 3 {
			for c := 0; c < len(filters); c += 4 {
				runSet([]int{a, b, c})
			}
		}
	}
	for c := range classes {
		fmt.Printf("VERIF-FAIL-CLASS: %s\n", c)
	}
	fmt.Printf("VERIF-SAMPLE: {id:int(1)} batched with {name:bob,age:nil}\n")
	fmt.Printf("VERIF-BOUNDED: evaluations=%d distinct=%d failures=%d\n", evals, distinct, failures)
}
