package sqlgen

// Search harness for C12 (decides the property on the real code when a contract of a DB operation no longer binds, e.g.
// after a restructuring of a bulk-insert loop): every operation of a shard-limited DB handle is run against the in-memory
// driver of c10_test.go, and every statement the driver receives is inspected - "no statement reaches the database unless
// it is confined to the shard", and a call that does not comply returns an error.

import (
	"context"
	"database/sql"
	"database/sql/driver"
	"fmt"
	"strings"
	"testing"

	"github.com/samsarahq/thunder/batch"
)

type c12Item struct {
	Id    int64 `sql:",primary"`
	OrgId int64
	Name  string
}

const c12Org = int64(1)

func c12Setup(t *testing.T) *DB {
	c10Once.Do(func() { sql.Register("c10fake", c10Drv) })
	conn, err := sql.Open("c10fake", "")
	if err != nil {
		t.Fatal(err)
	}
	schema := NewSchema()
	if err := schema.RegisterType("items", UniqueId, c12Item{}); err != nil {
		t.Fatal(err)
	}
	i := func(n int64) driver.Value { return n }
	c10Drv.mu.Lock()
	c10Drv.tables["items"] = &c10Table{
		columns: []string{"id", "org_id", "name"},
		rows:    [][]driver.Value{{i(1), i(1), "a"}, {i(2), i(1), "b"}, {i(3), i(2), "c"}},
	}
	c10Drv.mu.Unlock()
	db, err := NewDB(conn, schema).WithShardLimit(Filter{"org_id": c12Org})
	if err != nil {
		t.Fatal(err)
	}
	return db
}

// c12Confined: is the statement confined to org_id = c12Org?
func c12Confined(e c10Exec) (bool, string) {
	q := e.q
	isOrg := func(v driver.Value) bool { n, ok := v.(int64); return ok && n == c12Org }
	switch {
	case strings.HasPrefix(q, "INSERT INTO "):
		open := strings.Index(q, "(")
		close := strings.Index(q, ")")
		if open < 0 || close < open {
			return false, "no column list"
		}
		cols := strings.Split(q[open+1:close], ", ")
		org := -1
		for i, c := range cols {
			if c == "org_id" {
				org = i
			}
		}
		if org < 0 {
			return false, "INSERT without org_id column"
		}
		if len(e.args)%len(cols) != 0 || len(e.args) == 0 {
			return false, fmt.Sprintf("%d arguments for %d columns", len(e.args), len(cols))
		}
		for r := 0; r*len(cols) < len(e.args); r++ {
			if !isOrg(e.args[r*len(cols)+org]) {
				return false, fmt.Sprintf("row %d of the statement has org_id=%v", r, e.args[r*len(cols)+org])
			}
		}
		return true, ""
	case strings.HasPrefix(q, "UPDATE "), strings.HasPrefix(q, "DELETE FROM "):
		// every `col = ?` pair of SET and WHERE in order; org_id must be among them with the shard's value
		arg := 0
		found := false
		rest := q
		for {
			i := strings.Index(rest, "?")
			if i < 0 {
				break
			}
			before := strings.TrimRight(rest[:i], " =")
			f := strings.Fields(strings.NewReplacer(",", " ", "(", " ").Replace(before))
			col := ""
			if len(f) > 0 {
				col = f[len(f)-1]
			}
			if col == "org_id" && arg < len(e.args) {
				if !isOrg(e.args[arg]) {
					return false, fmt.Sprintf("org_id = %v", e.args[arg])
				}
				found = true
			}
			arg++
			rest = rest[i+1:]
		}
		if !found {
			return false, "statement does not mention org_id"
		}
		return true, ""
	case strings.HasPrefix(q, "SELECT "):
		// semantic: whatever row of a small universe (every column ranging over the statement's arguments, two further
		// values and NULL) the WHERE clause selects belongs to the shard
		j := strings.Index(q, " WHERE ")
		if j < 0 {
			return false, "SELECT without WHERE"
		}
		where := q[j+len(" WHERE "):]
		pred, err := c10ParseWhere(where, e.args)
		if err != nil {
			return false, "the statement cannot be analysed: " + err.Error()
		}
		values := []driver.Value{nil, int64(1), int64(2), "a", "zz"}
		values = append(values, e.args...)
		for _, id := range values {
			for _, org := range values {
				for _, name := range values {
					row := map[string]driver.Value{"id": id, "org_id": org, "name": name}
					if pred(row) && !isOrg(org) {
						return false, fmt.Sprintf("the WHERE clause %q selects a row with org_id=%v (id=%v, name=%v)", where, org, id, name)
					}
				}
			}
		}
		return true, ""
	}
	return false, "unrecognised statement"
}

func TestVerifSearch_C12_Sinks(t *testing.T) {
	db := c12Setup(t)
	ctx := context.Background()
	evals, distinct, failures := 0, 0, 0
	// run one operation; comply says whether the call is confined to the shard
	run := func(label string, comply bool, op func() error) {
		evals++
		c10Drv.mu.Lock()
		c10Drv.execs = nil
		c10Drv.mu.Unlock()
		err := op()
		c10Drv.mu.Lock()
		execs := append([]c10Exec{}, c10Drv.execs...)
		c10Drv.mu.Unlock()
		detail := ""
		for _, e := range execs {
			if ok, why := c12Confined(e); !ok {
				detail = fmt.Sprintf("statement %q with arguments %v reached the database: %s", e.q, e.args, why)
				break
			}
		}
		if detail == "" && !comply && err == nil {
			detail = "the call does not comply with the shard limit and returns no error"
		}
		// (a compliant call may still be rejected - e.g. DeleteRow identifies the row by its primary key only, so on a sharded
		// handle it needs the shard column in the key; the property demands rejection of what does not comply, not acceptance)
		if detail != "" {
			failures++
			if failures <= 3 {
				fmt.Printf("VERIF-FAIL-INPUT: %s\n", c10JSON(map[string]interface{}{"operation": label, "detail": detail}))
				t.Errorf("%s: %s", label, detail)
			} else {
				t.Fail()
			}
		}
	}
	item := func(id, org int64) *c12Item { return &c12Item{Id: id, OrgId: org, Name: fmt.Sprint("n", id)} }
	for _, org := range []int64{1, 2} {
		org := org
		distinct++
		run(fmt.Sprintf("InsertRow(org=%d)", org), org == c12Org, func() error { _, err := db.InsertRow(ctx, item(10, org)); return err })
		run(fmt.Sprintf("UpsertRow(org=%d)", org), org == c12Org, func() error { _, err := db.UpsertRow(ctx, item(10, org)); return err })
		run(fmt.Sprintf("UpdateRow(org=%d)", org), org == c12Org, func() error { return db.UpdateRow(ctx, item(1, org)) })
		run(fmt.Sprintf("DeleteRow(org=%d)", org), org == c12Org, func() error { return db.DeleteRow(ctx, item(1, org)) })
	}
	// bulk operations: n rows, row v (if any) outside the shard, every chunk size
	for n := 1; n <= 5; n++ {
		for v := -1; v < n; v++ {
			for chunk := 1; chunk <= 3; chunk++ {
				var rows []*c12Item
				for k := 0; k < n; k++ {
					org := c12Org
					if k == v {
						org = 2
					}
					rows = append(rows, item(int64(100+k), org))
				}
				distinct++
				run(fmt.Sprintf("InsertRows(n=%d, outside=%d, chunk=%d)", n, v, chunk), v < 0, func() error { return db.InsertRows(ctx, rows, chunk) })
				run(fmt.Sprintf("UpsertRows(n=%d, outside=%d, chunk=%d)", n, v, chunk), v < 0, func() error { return db.UpsertRows(ctx, rows, chunk) })
			}
		}
	}
	// reads: with and without batching
	filters := []struct {
		f      Filter
		comply bool
	}{
		{Filter{"org_id": c12Org}, true}, {Filter{"org_id": c12Org, "id": int64(1)}, true}, {Filter{"org_id": c12Org, "name": "a"}, true},
		{Filter{"id": int64(1)}, false}, {Filter{"org_id": int64(2)}, false}, {Filter{}, false}, {Filter{"name": "a", "id": int64(3)}, false},
	}
	for _, fc := range filters {
		fc := fc
		distinct++
		run(fmt.Sprintf("Query(%v)", fc.f), fc.comply, func() error { var out []*c12Item; return db.Query(ctx, &out, fc.f, nil) })
		run(fmt.Sprintf("Query(%v) batched", fc.f), fc.comply, func() error {
			var out []*c12Item
			return db.Query(batch.WithBatching(ctx), &out, fc.f, nil)
		})
		run(fmt.Sprintf("Count(%v)", fc.f), fc.comply, func() error { _, err := db.Count(ctx, &c12Item{}, fc.f); return err })
		run(fmt.Sprintf("QueryRow(%v)", fc.f), fc.comply, func() error {
			var out *c12Item
			err := db.QueryRow(ctx, &out, fc.f, nil)
			if err == sql.ErrNoRows {
				return nil
			}
			return err
		})
	}
	// a caller-supplied WHERE (SelectOptions) is AND-ed with the checked filter as a whole: an OR inside it must not escape
	for _, fc := range filters {
		fc := fc
		for _, w := range []struct {
			where  string
			values []interface{}
		}{
			{"name = ?", []interface{}{"c"}},
			{"name = ? OR id = ?", []interface{}{"c", int64(3)}},
			{"id = ? OR name = ? AND id = ?", []interface{}{int64(3), "c", int64(3)}},
			{"(name = ? OR id = ?) AND id = ?", []interface{}{"c", int64(3), int64(3)}},
		} {
			w := w
			distinct++
			run(fmt.Sprintf("Query(%v, Where: %q)", fc.f, w.where), fc.comply, func() error {
				var out []*c12Item
				return db.Query(ctx, &out, fc.f, &SelectOptions{Where: w.where, Values: w.values})
			})
			run(fmt.Sprintf("QueryRow(%v, Where: %q)", fc.f, w.where), fc.comply, func() error {
				var out *c12Item
				err := db.QueryRow(ctx, &out, fc.f, &SelectOptions{Where: w.where, Values: w.values})
				if err == sql.ErrNoRows {
					return nil
				}
				return err
			})
		}
	}
	// two compliant and one non-compliant query racing into one batch: the non-compliant one fails, the statement stays confined
	run("three concurrent batched queries, one outside the shard", true, func() error {
		bctx := batch.WithBatching(ctx)
		errs := make(chan error, 3)
		for _, f := range []Filter{{"org_id": c12Org, "id": int64(1)}, {"org_id": c12Org, "id": int64(2)}, {"id": int64(3)}} {
			f := f
			go func() { var out []*c12Item; errs <- db.Query(bctx, &out, f, nil) }()
		}
		rejected := 0
		for k := 0; k < 3; k++ {
			if err := <-errs; err != nil {
				rejected++
			}
		}
		if rejected != 1 {
			return fmt.Errorf("db requires: %d of 3 queries rejected, expected exactly the one outside the shard", rejected)
		}
		return nil
	})
	fmt.Printf("VERIF-SAMPLE: InsertRows(n=4, outside=3, chunk=2)\n")
	fmt.Printf("VERIF-BOUNDED: evaluations=%d distinct=%d failures=%d\n", evals, distinct, failures)
}
