package sqlgen

// Bounded stand-in for C13 (the row codec is reflection over registered struct types; no contract reaches it).
// For a table struct covering the supported column kinds, every generated value must survive
//   UnbuildStruct -> {each representation MySQL hands the values back in} -> BuildStruct
// and a filter made from the row's own column values must match the row (MakeTester(...).Test).
// Labelled bounded in the evidence; never counted as proved.

import (
	"database/sql/driver"
	"encoding/binary"
	"encoding/json"
	"errors"
	"fmt"
	"math"
	"reflect"
	"strconv"
	"strings"
	"testing"
	"time"
)

type c13Name string
type c13Small int16
type c13Flag bool

type c13Text struct{ A, B string }

func (t c13Text) MarshalText() ([]byte, error) { return []byte(t.A + "|" + t.B), nil }
func (t *c13Text) UnmarshalText(b []byte) error {
	p := strings.SplitN(string(b), "|", 2)
	if len(p) != 2 {
		return errors.New("bad c13Text")
	}
	t.A, t.B = p[0], p[1]
	return nil
}

type c13Bin struct{ V uint32 }

func (b c13Bin) MarshalBinary() ([]byte, error) {
	out := make([]byte, 4)
	binary.BigEndian.PutUint32(out, b.V)
	return out, nil
}
func (b *c13Bin) UnmarshalBinary(p []byte) error {
	if len(p) != 4 {
		return errors.New("bad c13Bin")
	}
	b.V = binary.BigEndian.Uint32(p)
	return nil
}

type c13JSON struct {
	X int64    `json:"x"`
	Y []string `json:"y"`
}

type c13Row struct {
	Id    int64 `sql:",primary"`
	I8    int8
	I16   int16
	I32   int32
	I     int
	U8    uint8
	U16   uint16
	U32   uint32
	U64   uint64
	F32   float32
	F64   float64
	B     bool
	S     string
	N     c13Name
	Sm    c13Small
	Fl    c13Flag
	Bytes []byte
	T     time.Time
	PI    *int64
	PS    *string
	PB    *bool
	PF    *float64
	PT    *time.Time
	PN    *c13Name
	Text  c13Text  `sql:",string"`
	PText *c13Text `sql:",string"`
	J     c13JSON  `sql:",json"`
	PJ    *c13JSON `sql:",json"`
	Bin   c13Bin   `sql:",binary"`
	IN    int64    `sql:",implicitnull"`
	SN    string   `sql:",implicitnull"`
}

func c13Rows() []*c13Row {
	i0, i1, i2 := int64(0), int64(-7), int64(math.MaxInt64)
	s0, s1 := "", "héllo 'q' \x00"
	bt, bf := true, false
	f0, f1 := 0.0, -1.5e300
	t1 := time.Date(2017, 7, 14, 2, 40, 0, 0, time.UTC)
	t2 := time.Date(1999, 12, 31, 23, 59, 59, 123456000, time.UTC)
	n1 := c13Name("nm")
	base := func() *c13Row {
		return &c13Row{Id: 1, T: t1, J: c13JSON{Y: []string{}}, Text: c13Text{"a", "b"}}
	}
	var rows []*c13Row
	add := func(f func(r *c13Row)) {
		r := base()
		f(r)
		rows = append(rows, r)
	}
	add(func(r *c13Row) {})
	add(func(r *c13Row) {
		r.I8, r.I16, r.I32, r.I, r.Id = math.MinInt8, math.MinInt16, math.MinInt32, math.MinInt64, math.MinInt64
	})
	add(func(r *c13Row) {
		r.I8, r.I16, r.I32, r.I, r.Id = math.MaxInt8, math.MaxInt16, math.MaxInt32, math.MaxInt64, math.MaxInt64
	})
	add(func(r *c13Row) { r.U8, r.U16, r.U32, r.U64 = math.MaxUint8, math.MaxUint16, math.MaxUint32, math.MaxInt64 })
	add(func(r *c13Row) { r.U8, r.U16, r.U32, r.U64 = 128, 32768, 1 << 31, 1 << 62 })
	add(func(r *c13Row) { r.F32, r.F64 = 1.5, 2.25 })
	add(func(r *c13Row) { r.F32, r.F64 = -math.MaxFloat32, math.SmallestNonzeroFloat64 })
	add(func(r *c13Row) { r.F32, r.F64 = 0.1, 0.1 })
	add(func(r *c13Row) { r.B, r.Fl = true, true })
	add(func(r *c13Row) { r.S, r.N = s1, c13Name(s1) })
	add(func(r *c13Row) { r.S, r.N = "123", "true" })
	add(func(r *c13Row) { r.Sm = -32768 })
	add(func(r *c13Row) { r.Bytes = []byte{} })
	add(func(r *c13Row) { r.Bytes = []byte{0, 255, 'a'} })
	add(func(r *c13Row) { r.T = t2 })
	add(func(r *c13Row) { r.PI, r.PS, r.PB, r.PF, r.PT, r.PN = &i0, &s0, &bf, &f0, &t1, &n1 })
	add(func(r *c13Row) { r.PI, r.PS, r.PB, r.PF, r.PT = &i1, &s1, &bt, &f1, &t2 })
	add(func(r *c13Row) { r.PI = &i2 })
	add(func(r *c13Row) { r.Text, r.PText = c13Text{"", ""}, &c13Text{"x", "y|z"} })
	add(func(r *c13Row) { r.J, r.PJ = c13JSON{X: -3, Y: []string{"a", ""}}, &c13JSON{X: 9, Y: []string{}} })
	add(func(r *c13Row) { r.Bin = c13Bin{V: 0xdeadbeef} })
	add(func(r *c13Row) { r.IN, r.SN = 5, "five" })
	return rows
}

// the forms in which MySQL hands a stored value back: v is what Valuer produced (what was sent to the server)
func c13Forms(v driver.Value, kind reflect.Kind) []driver.Value {
	forms := []driver.Value{v}
	switch x := v.(type) {
	case nil:
	case int64:
		txt := strconv.FormatInt(x, 10)
		forms = append(forms, []byte(txt), txt) // text protocol; binlog decimal text
		// binlog rows carry the column's own width; unsigned columns arrive as the signed value of the same bits
		switch kind {
		case reflect.Int8, reflect.Uint8:
			forms = append(forms, int8(x))
		case reflect.Int16, reflect.Uint16:
			forms = append(forms, int16(x))
		case reflect.Int32, reflect.Uint32:
			forms = append(forms, int32(x))
		}
	case float64:
		forms = append(forms, []byte(strconv.FormatFloat(x, 'g', -1, 64)))
		if kind == reflect.Float32 {
			forms = append(forms, float32(x), []byte(strconv.FormatFloat(x, 'g', -1, 32)))
		}
	case bool:
		n := int64(0)
		if x {
			n = 1
		}
		forms = append(forms, n, []byte(strconv.FormatInt(n, 10)), int8(n))
	case string:
		forms = append(forms, []byte(x))
	case []byte:
		forms = append(forms, string(x))
	case time.Time:
		forms = append(forms, []byte(x.Format("2006-01-02 15:04:05.999999")), x.Format("2006-01-02 15:04:05.999999"))
	}
	return forms
}

func c13Equal(a, b *c13Row) (bool, string) {
	va, vb := reflect.ValueOf(a).Elem(), reflect.ValueOf(b).Elem()
	for i := 0; i < va.NumField(); i++ {
		fa, fb := va.Field(i).Interface(), vb.Field(i).Interface()
		name := va.Type().Field(i).Name
		eq := reflect.DeepEqual(fa, fb)
		switch x := fa.(type) {
		case time.Time:
			eq = x.Equal(fb.(time.Time))
		case *time.Time:
			y := fb.(*time.Time)
			eq = (x == nil) == (y == nil) && (x == nil || x.Equal(*y))
		}
		if !eq {
			return false, fmt.Sprintf("field %s: %#v became %#v", name, fa, fb)
		}
	}
	return true, ""
}

func c13JSONs(v interface{}) string {
	b, _ := json.Marshal(v)
	return string(b)
}

func TestVerifBounded_C13_RowCodec(t *testing.T) {
	s := NewSchema()
	if err := s.RegisterType("c13", UniqueId, c13Row{}); err != nil {
		t.Fatalf("RegisterType: %v", err)
	}
	table := s.ByName["c13"]
	evals, distinct, failures := 0, 0, 0
	fail := func(what string, row *c13Row, detail string) {
		failures++
		if failures <= 3 {
			fmt.Printf("VERIF-FAIL-INPUT: %s\n", c13JSONs(map[string]interface{}{"check": what, "row": fmt.Sprintf("%+v", *row), "detail": detail}))
		}
		if failures <= 3 {
			t.Errorf("%s: %s", what, detail)
		} else {
			t.Fail()
		}
	}
	for _, row := range c13Rows() {
		distinct++
		vals, err := s.UnbuildStruct("c13", row)
		if err != nil {
			fail("UnbuildStruct", row, err.Error())
			continue
		}
		if len(vals) != len(table.Columns) {
			fail("UnbuildStruct", row, fmt.Sprintf("%d values for %d columns", len(vals), len(table.Columns)))
			continue
		}
		// what was sent to the server
		sent := make([]driver.Value, len(vals))
		for i, v := range vals {
			sent[i] = v
		}
		// 1. identity representation for every column at once
		evals++
		back, err := s.BuildStruct("c13", sent)
		if err != nil {
			fail("BuildStruct(UnbuildStruct(x))", row, err.Error())
		} else if ok, d := c13Equal(row, back.(*c13Row)); !ok {
			fail("BuildStruct(UnbuildStruct(x))", row, d)
		}
		// 1b. the decoded struct owns its data: overwriting the buffers the row was decoded from (database/sql reuses its read
		// buffer from row to row) must not change it
		evals++
		scratch := make([]driver.Value, len(sent))
		for i, v := range sent {
			if b, ok := v.([]byte); ok {
				scratch[i] = append([]byte{}, b...)
			} else {
				scratch[i] = v
			}
		}
		if back, err := s.BuildStruct("c13", scratch); err == nil {
			for _, v := range scratch {
				if b, ok := v.([]byte); ok {
					for k := range b {
						b[k] = '#'
					}
				}
			}
			if ok, d := c13Equal(row, back.(*c13Row)); !ok {
				fail("BuildStruct result aliases the source buffer", row, d)
			}
		}
		// 2. each alternative representation of each column, the others as sent
		for i := range sent {
			kind := table.Columns[i].Descriptor.Kind
			for _, form := range c13Forms(sent[i], kind)[1:] {
				if _, isStr := form.(string); isStr && table.Columns[i].Descriptor.Tags.Contains("binary") {
					continue // BLOB columns are always handed back as []byte; the scanner documents that it rejects anything else
				}
				alt := append([]driver.Value{}, sent...)
				alt[i] = form
				evals++
				back, err := s.BuildStruct("c13", alt)
				if err != nil {
					fail("BuildStruct(alternative representation)", row, fmt.Sprintf("column %s as %T(%v): %v", table.Columns[i].Name, form, form, err))
					continue
				}
				if ok, d := c13Equal(row, back.(*c13Row)); !ok {
					fail("BuildStruct(alternative representation)", row, fmt.Sprintf("column %s as %T(%v): %s", table.Columns[i].Name, form, form, d))
				}
			}
		}
		// 3. a filter made from the row's own column values matches the row, as a whole and column by column
		full := table.extractRow(row)
		evals++
		if tst, err := s.MakeTester("c13", full); err != nil {
			fail("MakeTester(own values)", row, err.Error())
		} else if !tst.Test(row) {
			fail("MakeTester(own values).Test(row)", row, "the filter made of all of the row's own column values does not match it")
		}
		for col, v := range full {
			evals++
			tst, err := s.MakeTester("c13", Filter{col: v})
			if err != nil {
				fail("MakeTester(own value)", row, err.Error())
				continue
			}
			if !tst.Test(row) {
				fail("MakeTester(own value).Test(row)", row, fmt.Sprintf("filter {%s: %#v} made from the row does not match it", col, v))
			}
		}
		// and a filter that differs in one scalar column does not match
		evals++
		if tst, err := s.MakeTester("c13", Filter{"id": row.Id + 1}); err == nil && row.Id != math.MaxInt64 && tst.Test(row) {
			fail("MakeTester(other id).Test(row)", row, "a filter on a different id matches")
		}
	}
	fmt.Printf("VERIF-SAMPLE: %+v\n", *c13Rows()[3])
	fmt.Printf("VERIF-BOUNDED: evaluations=%d distinct=%d failures=%d\n", evals, distinct, failures)
}
