#!/usr/bin/env python3
"""benigntest.py [names...]: applies each behaviour-preserving patch of /verif/benign to /repo, runs the quick check of every
property, restores /repo, and reports any VIOLATION line (each one is a false alarm of the machinery). Needs a clean /repo."""
import json, os, subprocess, sys, glob
names = sys.argv[1:] or sorted(os.path.basename(p)[:-6] for p in glob.glob('/verif/benign/*.patch'))
st = subprocess.run(['git','-C','/repo','status','--porcelain'],capture_output=True,text=True).stdout.strip()
if st:
    print('repo not clean'); sys.exit(2)
props = sorted(os.path.basename(p)[:-5] for p in glob.glob('/verif/props/C*.json'))
bad = 0
for n in names:
    patch = f'/verif/benign/{n}.patch'
    # only the properties whose configuration mentions a package the patch touches can change their verdict
    touched = set()
    for l in open(patch):
        if l.startswith('+++ b/'):
            touched.add(os.path.dirname(l[6:].strip()))
    r = subprocess.run(['git','-C','/repo','apply',patch],capture_output=True,text=True)
    if r.returncode != 0:
        print(n, 'PATCH-DOES-NOT-APPLY', r.stderr.strip()[:100]); bad += 1; continue
    alarms, undecided = [], []
    try:
        for p in props:
            cfg = json.load(open(f'/verif/props/{p}.json'))
            pk = set(f['pkg'] for f in cfg.get('functions',[])) | set(b['pkg'] for b in cfg.get('bounded',[])) | set(l['pkg'] for l in cfg.get('locksets',[])) | set(s['pkg'] for s in cfg.get('structural',[]))
            if not (pk & touched):
                continue
            o = subprocess.run(['/verif/bin/govc','check',p],cwd='/verif',capture_output=True,text=True,timeout=1800,env=dict(os.environ,VERIF_SELFTEST='1'))
            out = o.stdout + o.stderr
            alarms += [l[:220] for l in out.splitlines() if l.startswith('VIOLATION')]
            undecided += [l[:160] for l in out.splitlines() if l.startswith('UNDECIDED')]
    finally:
        subprocess.run(['git','-C','/repo','checkout','--','.'])
        subprocess.run(['git','-C','/repo','clean','-fdq'])
    if alarms:
        bad += 1
    print(n, 'FALSE-ALARM' if alarms else 'quiet', f'({len(undecided)} undecided)', flush=True)
    for a in alarms[:4]:
        print('   ', a)
print(f'benign: {len(names)} patches, {bad} raised an alarm')
sys.exit(1 if bad else 0)
