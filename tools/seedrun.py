#!/usr/bin/env python3
"""seedrun.py [seed ids...]: apply each stored seeded change (/verif/seeded/<id>/patch.diff) to /repo, run the quick check of its
property, restore /repo, and print one line per seed. Needs a clean /repo. Updates meta.json's detected_by_check/detection."""
import json, os, subprocess, sys
ids = sys.argv[1:] or sorted(os.listdir('/verif/seeded'))
st = subprocess.run(['git','-C','/repo','status','--porcelain'],capture_output=True,text=True).stdout.strip()
if st:
    print('repo not clean'); sys.exit(2)
for sid in ids:
    d = f'/verif/seeded/{sid}'
    meta = json.load(open(d+'/meta.json'))
    prop = meta['property']
    r = subprocess.run(['git','-C','/repo','apply',d+'/patch.diff'],capture_output=True,text=True)
    if r.returncode != 0:
        print(sid, 'PATCH-DOES-NOT-APPLY', r.stderr.strip()[:100]); continue
    try:
        p = subprocess.run(['/verif/bin/govc','check',prop],cwd='/verif',capture_output=True,text=True,timeout=1800,env=dict(os.environ,VERIF_SELFTEST='1'))
        out = p.stdout + p.stderr
    finally:
        subprocess.run(['git','-C','/repo','checkout','--','.'])
        subprocess.run(['git','-C','/repo','clean','-fdq'])
    viol = [l for l in out.splitlines() if l.startswith('VIOLATION')]
    det = bool(viol)
    meta['detected_by_check'] = det
    if det:
        meta['detection'] = viol[0][:300]
    json.dump(meta, open(d+'/meta.json','w'), indent=1)
    print(sid, 'DETECTED' if det else 'missed', (viol[0][:200] if viol else ''), flush=True)
