#!/usr/bin/env python3
"""Regenerates /verif/MANIFEST.json from /verif/props/*.json and tools/manifest_meta.json."""
import json, os, glob, subprocess
root = os.path.dirname(os.path.dirname(os.path.abspath(__file__)))
meta = json.load(open(os.path.join(root, "tools", "manifest_meta.json")))
props = [json.loads(l) for l in open(os.path.join(root, "properties.jsonl"))]
claimed = {}
for p in sorted(glob.glob(os.path.join(root, "props", "C*.json"))):
    c = json.load(open(p))
    claimed[c["id"]] = c
hooks = subprocess.run(["git", "-C", "/repo", "log", "--format=%H %s"], capture_output=True, text=True).stdout.splitlines()
hook_commits = [l.split()[0] for l in hooks if l.split(" ", 1)[1].startswith("verif hook")]
checks, na = [], []
for p in props:
    pid = p["id"]
    m = meta["checks"].get(pid)
    if pid in claimed and m:
        checks.append({
            "property_id": pid,
            "quick_cmd": f"/verif/bin/govc check {pid} --tier quick",
            "thorough_cmd": f"/verif/bin/govc check {pid} --tier thorough",
            "evidence_file": f"/verif/evidence/{pid}.json",
            "replay_cmd_template": "/verif/bin/govc replay {path}",
            "engine": "govc",
            "level_claimed": {"category": claimed[pid].get("level", "proof"), "text": m["text"], "design_ref": m.get("design_ref", "DESIGN.md section 6, " + pid)},
            "level_note": m["note"],
            "technique": m["technique"],
        })
    else:
        na.append({"property_id": pid, "reason": meta["not_applicable"].get(pid, "no check built yet for this property (see DESIGN.md section 6 for the plan); not claimed")})
man = {
    "version": 1,
    "setup_cmd": "cd /verif/engine && GOFLAGS=-mod=vendor GOPROXY=off GOSUMDB=off GOTOOLCHAIN=local go build -o /verif/bin/govc ./cmd/govc",
    "hooks": {
        "guard": "verif",
        "enable": "go build/test -tags verif (guarded files: comment-only contracts_verif.go, one per package under contract, and livesql/harness_verif.go, a composition function that is compiled only under the tag and called by nothing)",
        "baseline_off_cmd": "cd /repo && GOFLAGS=-mod=mod GOPROXY=off GOSUMDB=off GOTOOLCHAIN=local go test -json -vet=off -count=1 -timeout 25m ./...",
        "source_commits": hook_commits,
        "add_only": True,
    },
    "engines": [{"name": "govc", "path": "/verif/engine", "serves_properties": sorted(c["property_id"] for c in checks),
                 "kind_free_text": "contract-based deductive verifier for Go written for this repository: go/ssa of /repo's working tree -> weakest-precondition verification conditions from //@ contracts -> z3 5.1.0 / z3 4.8.12 / cvc5 1.0.3; counterexamples replayed on the real code through go test -overlay"}],
    "checks": checks,
    "not_applicable": na,
    "notes": meta.get("notes", ""),
}
json.dump(man, open(os.path.join(root, "MANIFEST.json"), "w"), indent=1)
print("checks:", [c["property_id"] for c in checks], "not_applicable:", len(na))
