#!/usr/bin/env python3
"""seedcheck.py <prop> <seed_out_dir> <n> <pkgdir> <test packages...>
Confirms a sub-agent's seeded change in a scratch worktree (demo passes without it, fails with it, existing tests of the
given packages still pass with it), then runs /verif's check for the property against /repo with the patch applied.
Prints a JSON summary. Always restores /repo and removes the scratch worktree."""
import json, os, subprocess, sys, shutil, re
prop, out, n, pkgdir = sys.argv[1:5]
testpkgs = sys.argv[5:]
env = dict(os.environ, GOFLAGS="-mod=mod", GOPROXY="off", GOSUMDB="off", GOTOOLCHAIN="local")
patch = os.path.join(out, f"patch_{n}.diff")
demo = os.path.join(out, f"demo_{n}_test.go")
wt = f"/tmp/confirm_{prop}_{n}"
def run(cmd, cwd, timeout=900):
    p = subprocess.run(cmd, cwd=cwd, env=env, capture_output=True, text=True, timeout=timeout)
    return p.returncode, (p.stdout + p.stderr)
res = {"property": prop, "patch": patch, "n": n}
subprocess.run(["git", "-C", "/repo", "worktree", "remove", "--force", wt], capture_output=True)
subprocess.run(["git", "-C", "/repo", "worktree", "add", "--detach", wt, "HEAD"], capture_output=True, check=True)
try:
    demodst = os.path.join(wt, pkgdir, f"zz_demo_{n}_test.go")
    shutil.copy(demo, demodst)
    race = ["-race"] if os.environ.get("SEED_RACE") else []
    rc0, o0 = run(["go", "test", "-vet=off", "-count=1"] + race + ["-run", os.environ.get("SEED_RUN", "."), "./" + pkgdir + "/"], wt)
    # baseline packages may contain DB tests that fail anyway: compare pass sets instead of exit codes
    def passes(cwd):
        rc, o = run(["go", "test", "-json", "-vet=off", "-count=1"] + testpkgs, cwd)
        s = set()
        for l in o.splitlines():
            try:
                e = json.loads(l)
            except Exception:
                continue
            if e.get("Action") == "pass" and e.get("Test"):
                s.add(e["Package"] + "::" + e["Test"])
        return s
    os.remove(demodst)
    base = passes(wt)
    rc, o = run(["git", "apply", patch], wt)
    res["applies"] = rc == 0
    rcb, ob = run(["go", "build", "./..."], wt)
    res["builds"] = rcb == 0
    after = passes(wt)
    res["existing_tests_lost"] = sorted(base - after)[:10]
    shutil.copy(demo, demodst)
    rc1, o1 = run(["go", "test", "-vet=off", "-count=1"] + race + ["-run", os.environ.get("SEED_RUN", "."), "./" + pkgdir + "/"], wt)
    res["demo_passes_without"] = None
    res["demo_fails_with"] = rc1 != 0
    res["demo_fail_excerpt"] = "\n".join([l for l in o1.splitlines() if "FAIL" in l or "Error" in l or "DATA RACE" in l][:6])
    # demo without the change
    run(["git", "apply", "-R", patch], wt)
    rc2, o2 = run(["go", "test", "-vet=off", "-count=1"] + race + ["-run", os.environ.get("SEED_RUN", "."), "./" + pkgdir + "/"], wt)
    res["demo_passes_without"] = rc2 == 0
finally:
    subprocess.run(["git", "-C", "/repo", "worktree", "remove", "--force", wt], capture_output=True)
# now /verif's check against /repo with the patch
st = subprocess.run(["git", "-C", "/repo", "status", "--porcelain"], capture_output=True, text=True).stdout.strip()
if st:
    res["error"] = "/repo not clean"
else:
    try:
        rc, o = run(["git", "apply", patch], "/repo")
        cenv = dict(env, VERIF_SELFTEST="1")
        p = subprocess.run(["/verif/bin/govc", "check", prop, "--tier", os.environ.get("SEED_TIER", "quick")], cwd="/verif", env=cenv, capture_output=True, text=True, timeout=3000)
        res["check_exit"] = p.returncode
        res["check_violations"] = [l[:260] for l in p.stdout.splitlines() if l.startswith("VIOLATION")][:6]
        res["check_summary"] = [l for l in p.stdout.splitlines() if l.startswith(prop + ":")]
    finally:
        subprocess.run(["git", "-C", "/repo", "checkout", "--", "."], capture_output=True)
print(json.dumps(res, indent=1))
