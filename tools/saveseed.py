#!/usr/bin/env python3
"""saveseed.py <prop> <seed_out_dir> <n> <pkgdir> <detected:yes|no> <detail...>  - store a confirmed seeded change under /verif/seeded/"""
import sys, os, shutil, json
prop, out, n, pkgdir, det = sys.argv[1:6]
detail = " ".join(sys.argv[6:])
d = f"/verif/seeded/{prop}_{n}"
os.makedirs(d, exist_ok=True)
shutil.copy(os.path.join(out, f"patch_{n}.diff"), os.path.join(d, "patch.diff"))
shutil.copy(os.path.join(out, f"demo_{n}_test.go"), os.path.join(d, "demo_test.go.txt"))
notes = open(os.path.join(out, f"notes_{n}.md")).read()
open(os.path.join(d, "notes.md"), "w").write(notes)
meta = {
 "property": prop,
 "source": "independent sub-agent given only the property text and a scratch worktree (contract files removed)",
 "demo_package_dir": pkgdir,
 "needs_to_manifest": notes[:1500],
 "confirmed_by": f"tools/seedcheck.py {prop} <dir> {n} {pkgdir} ...: in a scratch worktree the demo passes without the patch and fails with it, go build ./... succeeds and the set of passing existing tests is unchanged",
 "detected_by_check": det == "yes",
 "detection": detail,
}
json.dump(meta, open(os.path.join(d, "meta.json"), "w"), indent=1)
print("saved", d)
