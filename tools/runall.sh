#!/bin/bash
# runs every claimed check (quick) and prints one line each; exit 1 if any fails
cd /verif
rc=0
for f in props/C*.json; do
  id=$(basename $f .json)
  out=$(VERIF_STRICT=1 ./bin/govc check $id "$@" 2>&1)
  line=$(echo "$out" | grep "^$id:" | tail -1)
  echo "$line"
  if echo "$out" | grep -q "^VIOLATION"; then rc=1; echo "$out" | grep "^VIOLATION" | head -3 | cut -c1-220; fi
done
exit $rc
