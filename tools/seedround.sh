#!/bin/bash
# seedround.sh <prop> <pkgdir-for-demo> <n...> -- <test packages...>: dedupe against stored seeds, confirm + check each new seed, store it
P=$1; shift; PK=$1; shift
NS=()
while [ "$1" != "--" ]; do NS+=("$1"); shift; done; shift
for n in "${NS[@]}"; do
  dup=""
  for d in /verif/seeded/${P}_*; do
    if [ -f $d/patch.diff ] && diff -q <(grep '^[-+]' /tmp/seedout_$P/patch_$n.diff | grep -v '^[-+][-+]' | grep -v '^[-+]\s*//' ) <(grep '^[-+]' $d/patch.diff | grep -v '^[-+][-+]' | grep -v '^[-+]\s*//') >/dev/null; then dup=$d; fi
  done
  if [ -n "$dup" ]; then echo "=== $P $n duplicates $(basename $dup): skipped"; continue; fi
  pk=$(head -1 /tmp/seedout_$P/notes_$n.md | sed 's/^pkgdir: *//')
  [ -z "$pk" ] && pk=$PK
  echo "=== $P $n (demo in $pk)"
  SEED_RUN="TestSeedDemo${P}_${n}" python3 /verif/tools/seedcheck.py $P /tmp/seedout_$P $n $pk "$@" 2>&1 | grep "applies\|builds\|lost\|demo_passes\|demo_fails\|check_exit\|VIOLATION\|error" | cut -c1-260
  python3 /verif/tools/saveseed.py $P /tmp/seedout_$P $n $pk no pending > /dev/null
done
