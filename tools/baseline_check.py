#!/usr/bin/env python3
"""Runs the repository's test suite (guard off) and compares with the stable_pass list of BASELINE.json."""
import json, subprocess, os, sys
env = dict(os.environ, GOFLAGS="-mod=mod", GOPROXY="off", GOSUMDB="off", GOTOOLCHAIN="local")
p = subprocess.run(["go", "test", "-json", "-vet=off", "-count=1", "-timeout", "25m", "./..."], cwd="/repo", env=env, capture_output=True, text=True)
passed = set()
for l in p.stdout.splitlines():
    try:
        e = json.loads(l)
    except Exception:
        continue
    if e.get("Action") == "pass" and e.get("Test"):
        passed.add(e["Package"] + "::" + e["Test"])
base = json.load(open("/root/.vp/BASELINE.json"))["stable_pass"]
missing = [t for t in base if t not in passed]
print("baseline stable_pass:", len(base), "passing now:", len(base) - len(missing), "missing:", missing[:10])
sys.exit(1 if missing else 0)
