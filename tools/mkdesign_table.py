#!/usr/bin/env python3
"""Regenerates the per-property table of DESIGN.md section 10 from props/*.json (functions under contract, bounded
stand-ins with their bounds, what is not decided), so that the table cannot drift from what the checks actually run."""
import json, glob, re
rows = []
for p in sorted(glob.glob('/verif/props/C*.json')):
    d = json.load(open(p))
    by_pkg = {}
    for f in d['functions']:
        by_pkg.setdefault(f['pkg'], []).append(f['name'])
    fns = '; '.join(f"{pkg}: " + ', '.join(f'`{n}`' for n in names) for pkg, names in by_pkg.items())
    extra = []
    if d.get('locksets'):
        extra.append('lockset + lock-balance obligations (dataflow) for ' + ', '.join(l['pkg'] for l in d['locksets']))
    if d.get('lemmas'):
        extra.append('lemmas: ' + ', '.join(f"`{l if isinstance(l, str) else l.get('name', '')}`" for l in d['lemmas']))
    if d.get('structural'):
        extra.append('structural scans: ' + ', '.join(f"`{s if isinstance(s, str) else s.get('name', s.get('kind', ''))}`" for s in d['structural']))
    if extra:
        fns += '; ' + '; '.join(extra)
    bounded = '<br>'.join(f"`{b['test']}` ({b['pkg']}): {b['bound']}" for b in d.get('bounded', [])) or '-'
    nd = '; '.join(d.get('not_decided', [])) or '-'
    rows.append(f"| {d['id']} | {fns} | {bounded} | {nd} |")
table = "| id | functions under contract (every obligation generated for them is discharged on every run) | bounded stand-ins (test, package: bound) | not decided |\n|---|---|---|---|\n" + '\n'.join(rows)
s = open('/verif/DESIGN.md').read()
b, e = '<!-- table10:begin -->', '<!-- table10:end -->'
if b in s:
    s = s[:s.index(b) + len(b)] + '\n' + table + '\n' + s[s.index(e):]
else:
    raise SystemExit('markers missing')
open('/verif/DESIGN.md', 'w').write(s)
print('rows', len(rows))
