package main

import (
	"bytes"
	"context"
	"fmt"
	"os"
	"os/exec"
	"path/filepath"
	"strings"
	"sync"
	"time"
)

type SolveResult struct {
	Status string // unsat, sat, unknown, timeout, error
	Solver string
	Time   float64
	Output string
	File   string
	All    map[string]string // per-solver status (thorough)
}

var solverCmds = []struct {
	name string
	args func(file string, timeout time.Duration) []string
}{
	{"z3-5.1.0", func(f string, t time.Duration) []string {
		return []string{"z3-new", fmt.Sprintf("-T:%d", int(t.Seconds())+1), "-smt2", f}
	}},
	{"z3-5.1.0/seed7", func(f string, t time.Duration) []string {
		return []string{"z3-new", fmt.Sprintf("-T:%d", int(t.Seconds())+1), "smt.random_seed=7", "sat.random_seed=7", "-smt2", f}
	}},
	{"z3-5.1.0/seed42", func(f string, t time.Duration) []string {
		return []string{"z3-new", fmt.Sprintf("-T:%d", int(t.Seconds())+1), "smt.random_seed=42", "smt.arith.random_initial_value=true", "-smt2", f}
	}},
	{"z3-4.8.12", func(f string, t time.Duration) []string {
		return []string{"/usr/bin/z3", fmt.Sprintf("-T:%d", int(t.Seconds())+1), "-smt2", f}
	}},
	{"cvc5-1.0.3", func(f string, t time.Duration) []string {
		return []string{"cvc5", "--lang", "smt2", fmt.Sprintf("--tlimit=%d", t.Milliseconds()), f}
	}},
}

func (o *Obligation) script(getValues []string) string {
	vc := o.vc
	var b strings.Builder
	b.WriteString(vc.e.headerFor(o.ExpectSat))
	for _, l := range vc.lines[:o.Prefix] {
		b.WriteString(l)
		b.WriteByte('\n')
	}
	for _, l := range o.Extra {
		b.WriteString(l)
		b.WriteByte('\n')
	}
	fmt.Fprintf(&b, "; obligation %s\n; %s\n", o.Name, strings.ReplaceAll(o.Text, "\n", " "))
	if o.Guard != "true" && o.Guard != "" {
		fmt.Fprintf(&b, "(assert %s)\n", o.Guard)
	}
	if !o.ExpectSat {
		fmt.Fprintf(&b, "(assert (not %s))\n", o.Goal)
	}
	b.WriteString("(check-sat)\n")
	if len(getValues) > 0 {
		fmt.Fprintf(&b, "(get-value (%s))\n", strings.Join(getValues, " "))
	}
	return b.String()
}

func fileSafe(s string) string {
	return strings.NewReplacer("/", "_", "#", "-", "$", "_", "(", "", ")", "", "*", "", " ", "_", "@", "-at-").Replace(s)
}

// solve races the installed solvers on one obligation; the first definitive answer wins.
// With all=true every solver runs to completion and disagreements are reported.
func solve(o *Obligation, dir string, timeout time.Duration, all bool, getValues []string) SolveResult {
	file := filepath.Join(dir, fileSafe(o.Name)+".smt2")
	os.MkdirAll(dir, 0o755)
	if err := os.WriteFile(file, []byte(o.script(getValues)), 0o644); err != nil {
		return SolveResult{Status: "error", Output: err.Error()}
	}
	ctx, cancel := context.WithCancel(context.Background())
	defer cancel()
	type one struct {
		name, status, out string
		t                 float64
	}
	ch := make(chan one, len(solverCmds))
	var wg sync.WaitGroup
	for _, sc := range solverCmds {
		wg.Add(1)
		go func(name string, argv []string) {
			defer wg.Done()
			start := time.Now()
			c, cc := context.WithTimeout(ctx, timeout+2*time.Second)
			defer cc()
			cmd := exec.CommandContext(c, argv[0], argv[1:]...)
			var out bytes.Buffer
			cmd.Stdout = &out
			cmd.Stderr = &out
			cmd.Run()
			s := out.String()
			first := strings.TrimSpace(strings.SplitN(s, "\n", 2)[0])
			st := "unknown"
			switch {
			case first == "unsat":
				st = "unsat"
			case first == "sat":
				st = "sat"
			case first == "timeout" || strings.Contains(s, "timeout") || c.Err() != nil:
				st = "timeout"
			case strings.Contains(first, "error") || strings.Contains(s, "(error"):
				st = "error"
			}
			ch <- one{name, st, s, time.Since(start).Seconds()}
		}(sc.name, sc.args(file, timeout))
	}
	go func() { wg.Wait(); close(ch) }()
	res := SolveResult{Status: "unknown", File: file, All: map[string]string{}}
	var errOut string
	for r := range ch {
		res.All[r.name] = r.status
		if r.status == "error" && errOut == "" {
			errOut = r.name + ": " + trunc(r.out, 400)
		}
		definitive := r.status == "unsat" || r.status == "sat"
		if definitive && (res.Status != "unsat" && res.Status != "sat") {
			res.Status, res.Solver, res.Time, res.Output = r.status, r.name, r.t, r.out
			if !all {
				cancel()
			}
		} else if definitive && res.Status != r.status {
			res.Status = "disagree"
			res.Output += "\n" + r.name + ": " + r.status
		}
		if !definitive && res.Solver == "" {
			if r.status == "timeout" && res.Status == "unknown" {
				res.Status = "timeout"
			}
			if r.t > res.Time {
				res.Time = r.t
			}
		}
	}
	if res.Solver == "" && errOut != "" && res.Status != "timeout" {
		res.Status = "error"
		res.Output = errOut
	} else if res.Solver == "" {
		res.Output = errOut
	}
	return res
}
