package main

import (
	"fmt"
	"go/token"
	"go/types"
	"os"
	"path/filepath"
	"strings"

	"golang.org/x/tools/go/packages"
	"golang.org/x/tools/go/ssa"
	"golang.org/x/tools/go/ssa/ssautil"
)

var repoRoot = "/repo" // `govc vc` and `govc ssa` (contract development only) honour GOVC_REPO; checks always read /repo
const modPath = "github.com/samsarahq/thunder"

type World struct {
	fset      *token.FileSet
	prog      *ssa.Program
	pkgs      map[string]*packages.Package
	spkgs     map[string]*ssa.Package
	contracts map[string]*ContractFile // by package path
	allPkgs   []*packages.Package
}

func loadWorld(patterns []string) (*World, error) {
	cfg := &packages.Config{Mode: packages.LoadAllSyntax, Dir: repoRoot, BuildFlags: []string{"-tags=verif"},
		Env: append(os.Environ(), "GOFLAGS=-mod=mod", "GOPROXY=off", "GOSUMDB=off", "GOTOOLCHAIN=local")}
	pkgs, err := packages.Load(cfg, patterns...)
	if err != nil {
		return nil, err
	}
	w := &World{pkgs: map[string]*packages.Package{}, spkgs: map[string]*ssa.Package{}, contracts: map[string]*ContractFile{}}
	for _, p := range pkgs {
		if len(p.Errors) > 0 {
			return nil, fmt.Errorf("package %s does not type-check: %v", p.PkgPath, p.Errors[0])
		}
	}
	prog, spkgs := ssautil.AllPackages(pkgs, ssa.GlobalDebug|ssa.InstantiateGenerics)
	prog.Build()
	w.prog = prog
	w.fset = prog.Fset
	for i, p := range pkgs {
		w.pkgs[p.PkgPath] = p
		w.spkgs[p.PkgPath] = spkgs[i]
	}
	w.allPkgs = pkgs
	// every loaded thunder package may carry a contract file
	packages.Visit(pkgs, nil, func(p *packages.Package) {
		if !strings.HasPrefix(p.PkgPath, modPath) {
			return
		}
		if _, ok := w.pkgs[p.PkgPath]; !ok {
			w.pkgs[p.PkgPath] = p
			w.spkgs[p.PkgPath] = prog.Package(p.Types)
		}
		rel := strings.TrimPrefix(strings.TrimPrefix(p.PkgPath, modPath), "/")
		path := filepath.Join(repoRoot, rel, "contracts_verif.go")
		if _, err := os.Stat(path); err == nil {
			cf, perr := parseContractFile(path, p.PkgPath)
			if perr != nil {
				err = perr
				w.contracts[p.PkgPath] = &ContractFile{Path: path, Pkg: p.PkgPath, Funcs: map[string]*FuncContract{}, Preds: map[string]*PredDef{}}
				fmt.Fprintf(os.Stderr, "contract file error: %v\n", perr)
				contractErrors = append(contractErrors, perr.Error())
				return
			}
			w.contracts[p.PkgPath] = cf
		}
	})
	return w, nil
}

var contractErrors []string

func (w *World) typesPkg(path string) *types.Package {
	if p, ok := w.pkgs[path]; ok {
		return p.Types
	}
	return nil
}

func (w *World) contractFor(f *ssa.Function) *FuncContract {
	if f.Pkg == nil {
		return nil
	}
	cf := w.contracts[f.Pkg.Pkg.Path()]
	if cf == nil {
		return nil
	}
	return cf.Funcs[shortFuncName(f)]
}

func (w *World) contractByName(pkg *types.Package, name string) *FuncContract {
	if pkg == nil {
		return nil
	}
	cf := w.contracts[pkg.Path()]
	if cf == nil {
		return nil
	}
	return cf.Funcs[name]
}

// readOnlyGlobal: is pkgname.Var declared read-only in some loaded contract file?
func (w *World) readOnlyGlobal(pkgName, name string) bool {
	for _, cf := range w.contracts {
		for _, r := range cf.ReadOnly {
			if r == pkgName+"."+name {
				return true
			}
		}
	}
	return false
}

func (w *World) findPred(name string) *PredDef {
	for _, cf := range w.contracts {
		if p, ok := cf.Preds[name]; ok {
			return p
		}
	}
	return nil
}

// findFunc: by package path and short name (Recv.method, outer$1).
func (w *World) findFunc(pkgPath, name string) *ssa.Function {
	sp := w.spkgs[pkgPath]
	if sp == nil {
		return nil
	}
	var found *ssa.Function
	var walk func(f *ssa.Function)
	walk = func(f *ssa.Function) {
		if shortFuncName(f) == name {
			found = f
		}
		for _, a := range f.AnonFuncs {
			walk(a)
		}
	}
	for _, m := range sp.Members {
		switch x := m.(type) {
		case *ssa.Function:
			walk(x)
		case *ssa.Type:
			for _, t := range []types.Type{x.Type(), types.NewPointer(x.Type())} {
				ms := w.prog.MethodSets.MethodSet(t)
				for i := 0; i < ms.Len(); i++ {
					if f := w.prog.MethodValue(ms.At(i)); f != nil && f.Pkg == sp && f.Synthetic == "" {
						walk(f)
					}
				}
			}
		}
	}
	return found
}

// resolveType resolves a Go-like type string in the scope of pkg.
func (w *World) resolveType(pkg *types.Package, s string) (types.Type, error) {
	s = strings.TrimSpace(s)
	switch {
	case s == "":
		return nil, fmt.Errorf("empty type")
	case strings.HasPrefix(s, "*"):
		t, err := w.resolveType(pkg, s[1:])
		if err != nil {
			return nil, err
		}
		return types.NewPointer(t), nil
	case strings.HasPrefix(s, "[]"):
		t, err := w.resolveType(pkg, s[2:])
		if err != nil {
			return nil, err
		}
		return types.NewSlice(t), nil
	case strings.HasPrefix(s, "["):
		i := strings.Index(s, "]")
		var n int64
		fmt.Sscan(s[1:i], &n)
		t, err := w.resolveType(pkg, s[i+1:])
		if err != nil {
			return nil, err
		}
		return types.NewArray(t, n), nil
	case strings.HasPrefix(s, "map["):
		d := 0
		for i := 3; i < len(s); i++ {
			if s[i] == '[' {
				d++
			} else if s[i] == ']' {
				d--
				if d == 0 {
					k, err := w.resolveType(pkg, s[4:i])
					if err != nil {
						return nil, err
					}
					v, err := w.resolveType(pkg, s[i+1:])
					if err != nil {
						return nil, err
					}
					return types.NewMap(k, v), nil
				}
			}
		}
		return nil, fmt.Errorf("bad map type %q", s)
	case strings.HasPrefix(s, "set["):
		k, err := w.resolveType(pkg, s[4:len(s)-1])
		if err != nil {
			return nil, err
		}
		return types.NewMap(k, types.Typ[types.Bool]), nil
	case s == "struct{}":
		return types.NewStruct(nil, nil), nil
	case s == "interface{}" || s == "any":
		return tAny, nil
	case s == "error":
		return types.Universe.Lookup("error").Type(), nil
	}
	if obj := types.Universe.Lookup(s); obj != nil {
		if tn, ok := obj.(*types.TypeName); ok {
			return tn.Type(), nil
		}
	}
	if i := strings.Index(s, "."); i >= 0 {
		q, n := s[:i], s[i+1:]
		for _, imp := range pkg.Imports() {
			if imp.Name() == q {
				if obj := imp.Scope().Lookup(n); obj != nil {
					return obj.Type(), nil
				}
			}
		}
		for path, p := range w.pkgs {
			if p.Types.Name() == q || path == q {
				if obj := p.Types.Scope().Lookup(n); obj != nil {
					return obj.Type(), nil
				}
			}
		}
		// any package of the loaded program with that name (shortest import path wins, e.g. "time")
		var best *types.Package
		for _, sp := range w.prog.AllPackages() {
			if sp.Pkg != nil && sp.Pkg.Name() == q && sp.Pkg.Scope().Lookup(n) != nil {
				if best == nil || len(sp.Pkg.Path()) < len(best.Path()) || (len(sp.Pkg.Path()) == len(best.Path()) && sp.Pkg.Path() < best.Path()) {
					best = sp.Pkg
				}
			}
		}
		if best != nil {
			return best.Scope().Lookup(n).Type(), nil
		}
		return nil, fmt.Errorf("unknown type %q", s)
	}
	if obj := pkg.Scope().Lookup(s); obj != nil {
		if tn, ok := obj.(*types.TypeName); ok {
			return tn.Type(), nil
		}
	}
	return nil, fmt.Errorf("unknown type %q in package %s", s, pkg.Name())
}

// assignSet: the heap components a contract's assigns clause allows to change.
func (w *World) assignSet(e *Enc, pkg *types.Package, ct *FuncContract) (map[string]bool, bool) {
	set := map[string]bool{}
	if !ct.HasAssign {
		return set, true
	}
	for _, a := range ct.Assigns {
		switch a {
		case "nothing", "fresh":
			continue
		case "all":
			return set, true
		}
		if strings.HasPrefix(a, "cell(") && strings.HasSuffix(a, ")") {
			ty, err := w.resolveType(pkg, a[5:len(a)-1])
			if err != nil {
				panic(unsupported{fmt.Sprintf("assigns %q: %v", a, err)})
			}
			set[e.cellComp(ty)] = true
			continue
		}
		ty, err := w.resolveType(pkg, a)
		if err != nil {
			panic(unsupported{fmt.Sprintf("assigns %q: %v", a, err)})
		}
		switch u := ty.Underlying().(type) {
		case *types.Slice:
			set[e.arrComp(u.Elem())] = true
		case *types.Map:
			d, v, l := e.mapComps(u)
			set[d], set[v], set[l] = true, true, true
		case *types.Array:
			set[e.arrComp(u.Elem())] = true
		default:
			set[e.cellComp(ty)] = true
		}
	}
	return set, false
}

// noteIfaceUse / noteAssert record implements-facts between concrete types boxed into interfaces
// and interface types asserted to, so that `x.(SomeInterface)` is decided for program types.
func (w *World) noteIfaceUse(e *Enc, concrete types.Type) {
	if seenConcrete[e] == nil {
		seenConcrete[e] = map[string]types.Type{}
		seenIface[e] = map[string]types.Type{}
	}
	k := e.typeKey(concrete)
	if _, ok := seenConcrete[e][k]; ok {
		return
	}
	seenConcrete[e][k] = concrete
	for _, it := range seenIface[e] {
		e.implFact(it, concrete)
	}
}

func (w *World) noteAssert(e *Enc, t types.Type) {
	if seenConcrete[e] == nil {
		seenConcrete[e] = map[string]types.Type{}
		seenIface[e] = map[string]types.Type{}
	}
	if _, ok := t.Underlying().(*types.Interface); !ok {
		w.noteIfaceUse(e, t)
		return
	}
	k := e.typeKey(t)
	if _, ok := seenIface[e][k]; ok {
		return
	}
	seenIface[e][k] = t
	for _, c := range seenConcrete[e] {
		e.implFact(t, c)
	}
}

var seenConcrete = map[*Enc]map[string]types.Type{}
var seenIface = map[*Enc]map[string]types.Type{}

func (vc *FnVC) loopRangeComp(l *Loop) string {
	for _, in := range l.Header.Instrs {
		if nx, ok := in.(*ssa.Next); ok {
			if r, ok := nx.Iter.(*ssa.Range); ok {
				return vc.rangeCompName(r)
			}
		}
	}
	return ""
}

func (vc *FnVC) loopRangeKey(l *Loop) types.Type {
	for _, in := range l.Header.Instrs {
		if nx, ok := in.(*ssa.Next); ok {
			if r, ok := nx.Iter.(*ssa.Range); ok {
				if mt, ok := r.X.Type().Underlying().(*types.Map); ok {
					return mt.Key()
				}
			}
		}
	}
	return nil
}

func newFnVC(w *World, fn *ssa.Function, mode string) *FnVC {
	vc := &FnVC{w: w, e: newEnc(), fn: fn, name: shortFuncName(fn), vals: map[ssa.Value]Term{}, tuples: map[ssa.Value][]Term{},
		blockLit: map[*ssa.BasicBlock]Term{}, memOut: map[*ssa.BasicBlock]*Mem{}, counters: map[string]int{},
		closures: map[ssa.Value]*ssa.MakeClosure{}, callOrd: map[string]int{}, rangeMap: map[*ssa.Range]string{}, trustedUsed: map[string]bool{}, matchedSites: map[string]bool{}, mode: mode}
	vc.ct = w.contractFor(fn)
	if fn.Pkg != nil {
		vc.cf = w.contracts[fn.Pkg.Pkg.Path()]
	}
	return vc
}
