package main

import (
	"flag"
	"fmt"
	"os"
	"path/filepath"
	"sort"
	"strings"
	"sync"
	"time"
)

func main() {
	if len(os.Args) < 2 {
		fmt.Fprintln(os.Stderr, "usage: govc vc|check|replay|selftest ...")
		os.Exit(2)
	}
	switch os.Args[1] {
	case "vc":
		if r := os.Getenv("GOVC_REPO"); r != "" {
			repoRoot = r
		}
		cmdVC(os.Args[2:])
	case "check":
		os.Exit(cmdCheck(os.Args[2:]))
	case "replay":
		os.Exit(cmdReplay(os.Args[2:]))
	case "selftest":
		os.Exit(cmdSelftest(os.Args[2:]))
	case "ssa":
		if r := os.Getenv("GOVC_REPO"); r != "" {
			repoRoot = r
		}
		cmdSSA(os.Args[2:])
	default:
		fmt.Fprintln(os.Stderr, "unknown command", os.Args[1])
		os.Exit(2)
	}
}

func cmdSSA(args []string) {
	w, err := loadWorld([]string{modPath + "/" + args[0]})
	if err != nil {
		panic(err)
	}
	for _, n := range args[1:] {
		f := w.findFunc(modPath+"/"+args[0], n)
		if f == nil {
			fmt.Println("no func", n)
			continue
		}
		f.WriteTo(os.Stdout)
	}
}

// govc vc <pkg> <func>... : generate and discharge the obligations of single functions (debugging aid)
func cmdVC(args []string) {
	fs := flag.NewFlagSet("vc", flag.ExitOnError)
	timeout := fs.Duration("t", 10*time.Second, "solver timeout")
	dump := fs.Bool("dump", false, "print the script")
	only := fs.String("only", "", "substring filter on obligation names")
	fs.Parse(args)
	args = fs.Args()
	w, err := loadWorld([]string{modPath + "/" + args[0]})
	if err != nil {
		fmt.Fprintln(os.Stderr, err)
		os.Exit(2)
	}
	for _, n := range args[1:] {
		f := w.findFunc(modPath+"/"+args[0], n)
		if f == nil {
			fmt.Println("no func", n)
			continue
		}
		vc := newFnVC(w, f, "full")
		if err := vc.translate(); err != nil {
			fmt.Println("ERROR:", err)
		}
		for _, wn := range vc.warnings {
			fmt.Println("warning:", wn)
		}
		if *dump || os.Getenv("GOVC_LOOPS") != "" {
			for _, l := range vc.loops {
				fmt.Printf("loop %d at %s\n", l.Ordinal, w.fset.Position(l.MinPos))
			}
		}
		if *dump {
			fmt.Println(vc.e.header())
			fmt.Println(strings.Join(vc.lines, "\n"))
		}
		var obls []*Obligation
		for _, o := range vc.obls {
			if *only == "" || strings.Contains(o.Name, *only) {
				obls = append(obls, o)
			}
		}
		results := solveAll(obls, "/verif/out/vc", *timeout, false)
		for i, o := range obls {
			r := results[i]
			verdict := "FAIL"
			if (r.Status == "unsat" && !o.ExpectSat) || (r.Status == "sat" && o.ExpectSat) {
				verdict = "ok"
			} else if o.ExpectSat && r.Status != "unsat" {
				verdict = "inc"
			}
			pos := ""
			if verdict == "FAIL" && o.Pos.IsValid() {
				pos = fmt.Sprintf(" @%s:%d", filepath.Base(o.Pos.Filename), o.Pos.Line)
			}
			fmt.Printf("%-4s %-60s %-8s %-10s %.2fs  %s%s\n", verdict, o.Name, r.Status, r.Solver, r.Time, trunc(o.Text, 70), pos)
			if r.Status == "error" {
				fmt.Println("     ", r.Output)
			}
		}
		var tr []string
		for t := range vc.trustedUsed {
			tr = append(tr, t)
		}
		sort.Strings(tr)
		for _, t := range tr {
			fmt.Println("trusted:", t)
		}
	}
}

func solveAll(obls []*Obligation, dir string, timeout time.Duration, all bool) []SolveResult {
	results := make([]SolveResult, len(obls))
	sem := make(chan struct{}, 8)
	var wg sync.WaitGroup
	for i, o := range obls {
		wg.Add(1)
		go func(i int, o *Obligation) {
			defer wg.Done()
			sem <- struct{}{}
			defer func() { <-sem }()
			to := timeout
			if o.ExpectSat && to > 3*time.Second {
				to = 3 * time.Second // cover checks: only an unsat answer matters
			}
			results[i] = solve(o, dir, to, all && !o.ExpectSat, nil)
		}(i, o)
	}
	wg.Wait()
	return results
}
