package main

// Lockset obligations: every access to a field declared `guarded_by Struct.mu: fields` happens with that
// object's mutex in the must-hold set (forward dataflow over the SSA CFG). One obligation per access.

import (
	"fmt"
	"go/token"
	"go/types"
	"path/filepath"
	"sort"
	"strings"

	"golang.org/x/tools/go/ssa"
)

type lockState map[string]byte // key "base.mu" -> 'W' or 'R'; nil map = top (unreached)

func (s lockState) clone() lockState {
	if s == nil {
		return nil
	}
	c := lockState{}
	for k, v := range s {
		c[k] = v
	}
	return c
}

func meet(a, b lockState) lockState {
	if a == nil {
		return b.clone()
	}
	if b == nil {
		return a.clone()
	}
	out := lockState{}
	for k, v := range a {
		if w, ok := b[k]; ok {
			if w == 'R' || v == 'R' {
				out[k] = 'R'
			} else {
				out[k] = 'W'
			}
		}
	}
	return out
}

func sameState(a, b lockState) bool {
	if (a == nil) != (b == nil) || len(a) != len(b) {
		return false
	}
	for k, v := range a {
		if b[k] != v {
			return false
		}
	}
	return true
}

// accessPath: root value and dotted field path of a pointer/value reached through field addresses and loads,
// e.g. the receiver of e.syncer.plannerMu.Lock() is (e, "syncer.plannerMu").
func accessPath(v ssa.Value) (ssa.Value, string) {
	switch x := v.(type) {
	case *ssa.FieldAddr:
		st := x.X.Type().Underlying().(*types.Pointer).Elem().Underlying().(*types.Struct)
		r, p := accessPath(x.X)
		return r, joinPath(p, st.Field(x.Field).Name())
	case *ssa.UnOp:
		if x.Op == token.MUL {
			if _, ok := x.X.(*ssa.FieldAddr); ok {
				return accessPath(x.X)
			}
			// a variable captured by a closure lives in a cell; if it is assigned exactly once, every load is that value
			if a, ok := x.X.(*ssa.Alloc); ok {
				if st := singleStore(a); st != nil {
					return accessPath(st)
				}
			}
			if fv, ok := x.X.(*ssa.FreeVar); ok {
				return fv, "" // the captured variable itself (one cell per closure)
			}
		}
	case *ssa.ChangeType:
		return accessPath(x.X)
	}
	return v, ""
}

func singleStore(a *ssa.Alloc) ssa.Value {
	var val ssa.Value
	n := 0
	if refs := a.Referrers(); refs != nil {
		for _, r := range *refs {
			if st, ok := r.(*ssa.Store); ok && st.Addr == a {
				n++
				val = st.Val
			}
		}
	}
	if n == 1 {
		return val
	}
	return nil
}

func joinPath(a, b string) string {
	if a == "" {
		return b
	}
	return a + "." + b
}

func mutexOf(v ssa.Value) (ssa.Value, string, bool) {
	r, p := accessPath(v)
	if p == "" {
		return nil, "", false
	}
	return r, p, true
}

func structNameOf(ptr types.Type) string {
	p, ok := ptr.Underlying().(*types.Pointer)
	if !ok {
		return ""
	}
	if n, ok := p.Elem().(*types.Named); ok {
		return n.Obj().Name()
	}
	return ""
}

func lockKey(base ssa.Value, mu string) string { return base.Name() + "." + mu }

// baseRoot strips pure value renamings so that `c := x; c.mu.Lock(); c.f` agree.
func baseRoot(v ssa.Value) ssa.Value {
	for {
		switch x := v.(type) {
		case *ssa.ChangeType:
			v = x.X
			continue
		}
		return v
	}
}

func lockTransfer(b *ssa.BasicBlock, s lockState, visit func(in ssa.Instruction, s lockState)) lockState {
	s = s.clone()
	for _, ins := range b.Instrs {
		if visit != nil {
			visit(ins, s)
		}
		if d, ok := ins.(*ssa.Defer); ok {
			// a deferred Unlock: the mutex is released at every return reached from here
			dc := d.Common()
			if fn, ok := dc.Value.(*ssa.Function); ok && fn.Signature.Recv() != nil && len(dc.Args) > 0 && (fn.Name() == "Unlock" || fn.Name() == "RUnlock") {
				if b0, mu, ok := mutexOf(dc.Args[0]); ok {
					s["defer:"+lockKey(baseRoot(b0), mu)] = 'W'
				}
			}
			continue
		}
		call, ok := ins.(*ssa.Call)
		if !ok {
			continue
		}
		cc := call.Common()
		name := ""
		var recv ssa.Value
		if cc.IsInvoke() {
			name = cc.Method.Name()
			recv = cc.Value
		} else if fn, ok := cc.Value.(*ssa.Function); ok && fn.Signature.Recv() != nil && len(cc.Args) > 0 {
			name = fn.Name()
			recv = cc.Args[0]
		}
		switch name {
		case "Lock", "RLock", "Unlock", "RUnlock":
			b0, mu, ok := mutexOf(recv)
			if !ok {
				continue
			}
			k := lockKey(baseRoot(b0), mu)
			alias := "<" + structNameOf(baseRoot(b0).Type()) + "." + mu + ">"
			switch name {
			case "Lock":
				s[k] = 'W'
				s[alias] = 'W'
				if fn, ok := cc.Value.(*ssa.Function); !ok || fn.Pkg == nil || fn.Pkg.Pkg.Path() != "sync" {
					s["nosync:"+k] = 'W' // a lock type of the repository (e.g. a context-aware mutex whose Lock may fail): not subject to the balance rule
				}
			case "RLock":
				if s[k] != 'W' {
					s[k] = 'R'
					s[alias] = 'R'
				}
			default:
				delete(s, k)
				delete(s, alias)
			}
		}
	}
	return s
}

// entryLockState: the mutexes a function holds on entry, from its `holds` declarations.
func entryLockState(cf *ContractFile, f *ssa.Function) lockState {
	entry := lockState{}
	if cf == nil {
		return entry
	}
	if ct := cf.Funcs[shortFuncName(f)]; ct != nil {
		for _, h := range ct.Holds {
			parts := strings.SplitN(h, ".", 2)
			for _, p := range f.Params {
				if p.Name() == parts[0] && len(parts) == 2 {
					entry[lockKey(p, parts[1])] = 'W'
				}
			}
			for _, p := range f.FreeVars {
				if p.Name() == parts[0] && len(parts) == 2 {
					entry[lockKey(p, parts[1])] = 'W'
				}
			}
		}
	}
	return entry
}

// lockFixpoint: the must-hold lock state at the entry of every reachable block.
func lockFixpoint(f *ssa.Function, entry lockState) map[*ssa.BasicBlock]lockState {
	in := map[*ssa.BasicBlock]lockState{f.Blocks[0]: entry}
	outS := map[*ssa.BasicBlock]lockState{}
	changed := true
	for iter := 0; changed && iter < 100; iter++ {
		changed = false
		for _, b := range f.Blocks {
			var s lockState
			if b == f.Blocks[0] {
				s = entry.clone()
			} else {
				first := true
				for _, p := range b.Preds {
					if o, ok := outS[p]; ok {
						if first {
							s = o.clone()
							first = false
						} else {
							s = meet(s, o)
						}
					}
				}
				if first {
					continue
				}
			}
			in[b] = s
			o := lockTransfer(b, s, nil)
			if prev, ok := outS[b]; !ok || !sameState(prev, o) {
				outS[b] = o
				changed = true
			}
		}
	}
	return in
}

// heldAt: is a mutex of the named struct type (key "<Type.mu>") certainly held just before instruction idx of block b?
func heldAt(cf *ContractFile, f *ssa.Function, b *ssa.BasicBlock, idx int, key string) bool {
	in := lockFixpoint(f, entryLockState(cf, f))
	s, ok := in[b]
	if !ok {
		return false
	}
	held := false
	n := 0
	seen := false
	lockTransfer(b, s, func(ins ssa.Instruction, cur lockState) {
		if n == idx && !seen {
			_, held = cur[key]
			seen = true
		}
		n++
	})
	if !seen {
		// idx is past the last instruction: state at the end of the block
		_, held = lockTransfer(b, s, nil)[key]
	}
	return held
}

func locksetObligations(w *World, pkg string, run *checkRun) []*Obligation {
	path := modPath + "/" + pkg
	base := filepath.Base(pkg)
	cf := w.contracts[path]
	if cf == nil || len(cf.Guarded) == 0 {
		run.fail("lockset", "package "+pkg+" declares no guarded_by", nil, "")
		return nil
	}
	type guard struct {
		mu     string
		exempt map[string]bool
	}
	guards := map[string]guard{} // "Struct.field" -> guard
	for _, g := range cf.Guarded {
		for _, f := range g.Fields {
			guards[g.Struct+"."+f] = guard{g.Mutex, g.Exempt}
		}
		for e := range g.Exempt {
			run.trusted[fmt.Sprintf("lockset exemption in %s: %s accesses %s fields without %s (see the guarded_by comment for the stability argument)", base, e, g.Struct, g.Mutex)] = true
		}
	}
	var out []*Obligation
	for _, f := range allFunctions(w, path) {
		fname := shortFuncName(f)
		entry := entryLockState(cf, f)
		in := map[*ssa.BasicBlock]lockState{f.Blocks[0]: entry}
		outS := map[*ssa.BasicBlock]lockState{}
		transfer := lockTransfer
		// fixpoint
		changed := true
		for iter := 0; changed && iter < 100; iter++ {
			changed = false
			for _, b := range f.Blocks {
				var s lockState
				if b == f.Blocks[0] {
					s = entry.clone()
				} else {
					first := true
					for _, p := range b.Preds {
						if o, ok := outS[p]; ok {
							if first {
								s = o.clone()
								first = false
							} else {
								s = meet(s, o)
							}
						}
					}
					if first {
						continue
					}
				}
				in[b] = s
				o := transfer(b, s, nil)
				if prev, ok := outS[b]; !ok || !sameState(prev, o) {
					outS[b] = o
					changed = true
				}
			}
		}
		// obligations
		n := 0
		nret := 0
		locksSomething := false
		for _, b := range f.Blocks {
			for _, ins := range b.Instrs {
				if c, ok := ins.(*ssa.Call); ok {
					if fn, ok := c.Common().Value.(*ssa.Function); ok && fn.Signature.Recv() != nil && (fn.Name() == "Lock" || fn.Name() == "RLock") && fn.Pkg != nil && fn.Pkg.Pkg.Path() == "sync" {
						locksSomething = true
					}
				}
			}
		}
		returnsHolding := false
		if ct := cf.Funcs[fname]; ct != nil {
			for _, nt := range ct.Notes {
				if strings.Contains(nt, "returns holding") {
					returnsHolding = true
				}
			}
		}
		taint := map[ssa.Value][3]string{} // map/slice value loaded from a guarded field -> (lock key, struct.field, mode)
		for _, b := range f.Blocks {
			s, ok := in[b]
			if !ok {
				continue
			}
			transfer(b, s, func(ins ssa.Instruction, cur lockState) {
				check := func(key, sf string, write bool, pos token.Pos, what string) {
					g := guards[sf]
					field := sf[strings.Index(sf, ".")+1:]
					if g.exempt[fname] || g.exempt[fname+":"+field] {
						return
					}
					n++
					mode, held := cur[key]
					ok := held && (!write || mode == 'W')
					o := constObligation(fmt.Sprintf("%s.%s/lockset#%d[%s]", base, fname, n, sf), base+"."+fname, ok,
						fmt.Sprintf("%s of %s needs %s held (held: %v)", what, sf, key, heldList(cur)))
					if pos.IsValid() {
						o.Pos = w.fset.Position(pos)
					}
					out = append(out, o)
				}
				switch x := ins.(type) {
				case *ssa.Return:
					// balance: a mutex this function took (it is not in the entry set) and that is certainly held here is
					// released by a deferred Unlock - otherwise this return leaves it locked for good
					if !locksSomething {
						return
					}
					nret++
					var leaked []string
					for k := range cur {
						if strings.HasPrefix(k, "<") || strings.HasPrefix(k, "defer:") || strings.HasPrefix(k, "nosync:") {
							continue
						}
						if _, other := cur["nosync:"+k]; other {
							continue
						}
						if _, atEntry := entry[k]; atEntry {
							continue
						}
						if _, deferred := cur["defer:"+k]; !deferred {
							leaked = append(leaked, k)
						}
					}
					sort.Strings(leaked)
					o := constObligation(fmt.Sprintf("%s.%s/lockbalance#%d", base, fname, nret), base+"."+fname, len(leaked) == 0 || returnsHolding,
						fmt.Sprintf("every mutex taken by the function is released when it returns (still held: %v)", leaked))
					if x.Pos().IsValid() {
						o.Pos = w.fset.Position(x.Pos())
					}
					out = append(out, o)
				case *ssa.FieldAddr:
					sn := structNameOf(x.X.Type())
					if sn == "" {
						return
					}
					st := x.X.Type().Underlying().(*types.Pointer).Elem().Underlying().(*types.Struct)
					sf := sn + "." + st.Field(x.Field).Name()
					g, guarded := guards[sf]
					if !guarded {
						return
					}
					root, bpath := accessPath(x.X)
					if _, fresh := root.(*ssa.Alloc); fresh {
						return // object allocated by this function: not yet shared
					}
					key := lockKey(root, joinPath(bpath, g.mu))
					if strings.HasPrefix(g.mu, "<") {
						key = g.mu // guarded by a lock of another object, identified by its type: <Type.mu>
					}
					write := false
					argOf := ""
					if refs := x.Referrers(); refs != nil {
						for _, r := range *refs {
							switch u := r.(type) {
							case *ssa.Store:
								if u.Addr == x {
									write = true
								}
							case *ssa.UnOp:
								if u.Op == token.MUL {
									switch u.Type().Underlying().(type) {
									case *types.Map, *types.Slice:
										taint[u] = [3]string{key, sf, ""}
									}
									if urefs := u.Referrers(); urefs != nil {
										for _, ur := range *urefs {
											if c, ok := ur.(ssa.CallInstruction); ok {
												argOf = calleeShort(c.Common())
											}
										}
									}
								}
							}
						}
					}
					what := "read"
					if write {
						what = "write"
					}
					if argOf != "" && !write && g.exempt[fname+":"+st.Field(x.Field).Name()+":arg-of-"+argOf] {
						return
					}
					check(key, sf, write, x.Pos(), what)
				case *ssa.Lookup:
					if t, ok := taint[x.X]; ok {
						check(t[0], t[1], false, x.Pos(), "map read")
					}
				case *ssa.MapUpdate:
					if t, ok := taint[x.Map]; ok {
						check(t[0], t[1], true, x.Pos(), "map write")
					}
				case *ssa.Range:
					if t, ok := taint[x.X]; ok {
						check(t[0], t[1], false, x.Pos(), "map range")
					}
				case *ssa.IndexAddr:
					if t, ok := taint[x.X]; ok {
						check(t[0], t[1], false, x.Pos(), "slice element access")
					}
				case *ssa.Call:
					cc := x.Common()
					if bi, ok := cc.Value.(*ssa.Builtin); ok {
						switch bi.Name() {
						case "len", "delete":
							if t, ok := taint[cc.Args[0]]; ok {
								check(t[0], t[1], bi.Name() == "delete", x.Pos(), "map "+bi.Name())
							}
						}
						return
					}
					// callee declared `holds p.mu`: the caller must hold it for the argument
					if callee, ok := cc.Value.(*ssa.Function); ok && callee.Pkg != nil {
						if ccf := w.contracts[callee.Pkg.Pkg.Path()]; ccf != nil {
							if ct := ccf.Funcs[shortFuncName(callee)]; ct != nil {
								for _, h := range ct.Holds {
									parts := strings.SplitN(h, ".", 2)
									for i, p := range callee.Params {
										if p.Name() == parts[0] && len(parts) == 2 && i < len(cc.Args) {
											n++
											key := lockKey(baseRoot(cc.Args[i]), parts[1])
											_, held := cur[key]
											o := constObligation(fmt.Sprintf("%s.%s/lockset#%d[holds@%s]", base, fname, n, shortFuncName(callee)), base+"."+fname, held,
												fmt.Sprintf("call of %s requires %s held (held: %v)", shortFuncName(callee), key, heldList(cur)))
											o.Pos = w.fset.Position(x.Pos())
											out = append(out, o)
										}
									}
								}
							}
						}
					}
				}
			})
		}
	}
	return out
}

func heldList(s lockState) []string {
	var out []string
	for k, m := range s {
		out = append(out, fmt.Sprintf("%s(%c)", k, m))
	}
	sort.Strings(out)
	return out
}
