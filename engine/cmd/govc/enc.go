package main

// SMT encoding of Go types, the heap (lazy versioned components), interface values.

import (
	"fmt"
	"go/types"
	"sort"
	"strings"
)

type Term = string

func symOK(c rune) bool {
	return c >= 'a' && c <= 'z' || c >= 'A' && c <= 'Z' || c >= '0' && c <= '9' ||
		strings.ContainsRune("~!@$%^&*_-+=<>.?/", c)
}

func sym(s string) string {
	ok := len(s) > 0 && !(s[0] >= '0' && s[0] <= '9')
	for _, c := range s {
		if !symOK(c) {
			ok = false
			break
		}
	}
	if ok {
		return s
	}
	s = strings.NewReplacer("|", "!", "\\", "/").Replace(s)
	return "|" + s + "|"
}

func app(f string, args ...string) string {
	if len(args) == 0 {
		return f
	}
	return "(" + f + " " + strings.Join(args, " ") + ")"
}

func and(ts ...string) string {
	var out []string
	for _, t := range ts {
		if t == "true" || t == "" {
			continue
		}
		if t == "false" {
			return "false"
		}
		out = append(out, t)
	}
	if len(out) == 0 {
		return "true"
	}
	if len(out) == 1 {
		return out[0]
	}
	return app("and", out...)
}

func or(ts ...string) string {
	var out []string
	for _, t := range ts {
		if t == "false" || t == "" {
			continue
		}
		if t == "true" {
			return "true"
		}
		out = append(out, t)
	}
	if len(out) == 0 {
		return "false"
	}
	if len(out) == 1 {
		return out[0]
	}
	return app("or", out...)
}

func not(t string) string {
	if t == "true" {
		return "false"
	}
	if t == "false" {
		return "true"
	}
	return app("not", t)
}

func implies(a, b string) string {
	if a == "true" {
		return b
	}
	if b == "true" {
		return "true"
	}
	return app("=>", a, b)
}

func intLit(n int64) string {
	if n < 0 {
		return fmt.Sprintf("(- %d)", -n)
	}
	return fmt.Sprintf("%d", n)
}

// ---------------------------------------------------------------- encoder

type structInfo struct {
	sort   string
	ctor   string
	fields []string // selector names
	ftypes []types.Type
	fnames []string
}

type Enc struct {
	decls      []string
	declared   map[string]bool
	tags       map[string]int
	tagList    []string
	tagTy      map[string]types.Type
	strlits    map[string]string
	strOrder   []string
	structs    map[string]*structInfo
	compSort   map[string]string
	nfresh     int
	subIdx     map[string]int
	memCounter int
	qual       types.Qualifier
	boxed      map[string]bool
	implFacts  map[string]bool
	assumption map[string]bool // encoding assumptions actually used (for the evidence)
}

func newEnc() *Enc {
	e := &Enc{subIdx: map[string]int{}, tagTy: map[string]types.Type{}, declared: map[string]bool{}, tags: map[string]int{}, strlits: map[string]string{}, structs: map[string]*structInfo{},
		compSort: map[string]string{}, boxed: map[string]bool{}, implFacts: map[string]bool{}, assumption: map[string]bool{}}
	e.qual = func(p *types.Package) string { return p.Name() }
	return e
}

const smtHeader = `(set-option :produce-models true)
(set-logic ALL)
(declare-sort Str 0)
(declare-datatypes ((Slice 0)) (((mkslice (sref Int) (soff Int) (slen Int) (scap Int)))))
(declare-datatypes ((Any 0)) (((anil) (abool (tg0 Int) (abv Bool)) (aint (tg1 Int) (aiv Int)) (areal (tg2 Int) (arv Real)) (astr (tg3 Int) (asv Str)) (aref (tg4 Int) (arf Int)) (aslice (tg5 Int) (aslv Slice)) (abox (tg6 Int) (abx Int)))))
(define-fun tagof ((a Any)) Int (ite ((_ is anil) a) 0 (ite ((_ is abool) a) (tg0 a) (ite ((_ is aint) a) (tg1 a) (ite ((_ is areal) a) (tg2 a) (ite ((_ is astr) a) (tg3 a) (ite ((_ is aref) a) (tg4 a) (ite ((_ is aslice) a) (tg5 a) (tg6 a)))))))))
(define-fun slicewf ((s Slice)) Bool (and (>= (slen s) 0) (>= (scap s) (slen s)) (>= (soff s) 0) (>= (sref s) 0) (=> (= (sref s) 0) (and (= (slen s) 0) (= (scap s) 0)))))
(declare-fun uncomparable (Int) Bool)
(assert (not (uncomparable 0)))
(declare-fun gorem (Int Int) Int)
(declare-fun goquot (Int Int) Int)
(declare-fun strlen (Str) Int)
(declare-fun strcat (Str Str) Str)
(declare-fun strlt (Str Str) Bool)
;;AXIOMS
(declare-fun at (Int Int) Int)
(assert (forall ((o Int) (k Int)) (! (= (at o k) (+ o k)) :pattern ((at o k)))))
(assert (forall ((o Int) (a Int) (k Int)) (! (= (at (at o a) k) (at o (+ a k))) :pattern ((at (at o a) k)))))
(assert (forall ((a Any)) (! (slicewf (aslv a)) :pattern ((aslv a)))))
(assert (forall ((s Str)) (! (>= (strlen s) 0) :pattern ((strlen s)))))
`

// coverAxioms replaces the quantified prelude axioms in cover (must-be-sat) queries: `at` is defined exactly,
// the remaining axioms only constrain auxiliary values.
const coverAxioms = `(define-fun at ((o Int) (k Int)) Int (+ o k))
`

func (e *Enc) decl(key, line string) {
	if e.declared[key] {
		return
	}
	e.declared[key] = true
	e.decls = append(e.decls, line)
}

// strltFacts: string order is asymmetric. Declared only for functions that compare strings, so that the prelude of all
// other functions stays byte-identical (some discharged queries are sensitive to any change of the prelude).
func (e *Enc) strltFacts() {
	e.decl("strlt-asym", "(assert (forall ((a Str) (b Str)) (! (not (and (strlt a b) (strlt b a))) :pattern ((strlt a b)))))")
}

func (e *Enc) fresh(prefix string) string {
	e.nfresh++
	return fmt.Sprintf("%s!%d", prefix, e.nfresh)
}

func (e *Enc) typeKey(t types.Type) string {
	return types.TypeString(t, e.qual)
}

func (e *Enc) tag(t types.Type) string {
	k := e.typeKey(t)
	if _, ok := e.tags[k]; !ok {
		e.tags[k] = len(e.tags) + 1
		e.tagList = append(e.tagList, k)
		e.tagTy[k] = t
		fact := "(assert (not (uncomparable " + fmt.Sprint(e.tags[k]) + ")))"
		if !types.Comparable(t) {
			fact = "(assert (uncomparable " + fmt.Sprint(e.tags[k]) + "))"
		}
		e.decl("tag:"+k, fmt.Sprintf("(define-fun %s () Int %d)\n%s", sym("tag$"+k), e.tags[k], fact))
	}
	return sym("tag$" + k)
}

func (e *Enc) strLit(s string) string {
	if n, ok := e.strlits[s]; ok {
		return n
	}
	n := fmt.Sprintf("str!%d", len(e.strlits))
	e.strlits[s] = n
	e.strOrder = append(e.strOrder, s)
	e.decl("str:"+s, fmt.Sprintf("(declare-const %s Str) ; %q\n(assert (= (strlen %s) %d))", n, trunc(s, 60), n, len(s)))
	return n
}

func trunc(s string, n int) string {
	s = strings.ReplaceAll(s, "\n", " ")
	if len(s) > n {
		return s[:n] + "..."
	}
	return s
}

// header returns everything that must precede a function script.
func (e *Enc) header() string { return e.headerFor(false) }

func (e *Enc) headerFor(cover bool) string {
	var b strings.Builder
	if cover {
		i := strings.Index(smtHeader, ";;AXIOMS")
		b.WriteString(smtHeader[:i])
		b.WriteString(coverAxioms)
	} else {
		b.WriteString(smtHeader)
	}
	for _, d := range e.decls {
		if cover {
			// cover queries (expected sat) run without quantified background facts: drop the axiom lines of a declaration
			var kept []string
			for _, l := range strings.Split(d, "\n") {
				if strings.HasPrefix(l, "(assert (forall") {
					continue
				}
				kept = append(kept, l)
			}
			d = strings.Join(kept, "\n")
		}
		b.WriteString(d)
		b.WriteByte('\n')
	}
	if len(e.strOrder) > 1 {
		b.WriteString("(assert (distinct")
		for _, s := range e.strOrder {
			b.WriteString(" " + e.strlits[s])
		}
		b.WriteString("))\n")
	}
	return b.String()
}

func (e *Enc) sortOf(t types.Type) string {
	switch u := t.Underlying().(type) {
	case *types.Basic:
		info := u.Info()
		switch {
		case info&types.IsBoolean != 0:
			return "Bool"
		case info&types.IsInteger != 0:
			return "Int"
		case info&types.IsFloat != 0:
			return "Real"
		case info&types.IsString != 0:
			return "Str"
		case u.Kind() == types.UnsafePointer:
			return "Int"
		case u.Kind() == types.UntypedNil:
			return "Int"
		}
	case *types.Pointer, *types.Map, *types.Chan, *types.Signature:
		return "Int"
	case *types.Slice:
		return "Slice"
	case *types.Interface:
		return "Any"
	case *types.Struct:
		return e.structOf(t).sort
	case *types.Array:
		return "(Array Int " + e.sortOf(u.Elem()) + ")"
	case *types.Tuple:
		if u.Len() == 0 {
			return "Bool"
		}
	}
	panic(unsupported{fmt.Sprintf("type %s has no SMT sort", t)})
}

type unsupported struct{ msg string }

func (e *Enc) structOf(t types.Type) *structInfo {
	k := e.typeKey(t)
	if si, ok := e.structs[k]; ok {
		return si
	}
	st := t.Underlying().(*types.Struct)
	name := k
	if _, named := t.(*types.Named); !named {
		name = fmt.Sprintf("anon%d", len(e.structs))
	}
	si := &structInfo{sort: sym("S$" + name), ctor: sym("mk$" + name)}
	e.structs[k] = si
	var fl []string
	for i := 0; i < st.NumFields(); i++ {
		f := st.Field(i)
		sel := sym(fmt.Sprintf("%s$%s", name, f.Name()))
		si.fields = append(si.fields, sel)
		si.ftypes = append(si.ftypes, f.Type())
		si.fnames = append(si.fnames, f.Name())
		fl = append(fl, fmt.Sprintf("(%s %s)", sel, e.sortOf(f.Type())))
	}
	if len(fl) == 0 {
		e.decl("struct:"+k, fmt.Sprintf("(declare-datatypes ((%s 0)) (((%s))))", si.sort, si.ctor))
	} else {
		e.decl("struct:"+k, fmt.Sprintf("(declare-datatypes ((%s 0)) (((%s %s))))", si.sort, si.ctor, strings.Join(fl, " ")))
	}
	return si
}

func (e *Enc) zero(t types.Type) Term {
	switch u := t.Underlying().(type) {
	case *types.Basic:
		info := u.Info()
		switch {
		case info&types.IsBoolean != 0:
			return "false"
		case info&types.IsInteger != 0:
			return "0"
		case info&types.IsFloat != 0:
			return "0.0"
		case info&types.IsString != 0:
			return e.strLit("")
		}
		return "0"
	case *types.Pointer, *types.Map, *types.Chan, *types.Signature:
		return "0"
	case *types.Slice:
		return "(mkslice 0 0 0 0)"
	case *types.Interface:
		return "anil"
	case *types.Struct:
		si := e.structOf(t)
		var args []string
		for _, ft := range si.ftypes {
			args = append(args, e.zero(ft))
		}
		return app(si.ctor, args...)
	case *types.Array:
		return e.constArray("Int", u.Elem())
	}
	panic(unsupported{fmt.Sprintf("zero of %s", t)})
}

// constArray: the array (indexed by sort idx) that holds the zero value of elem everywhere. cvc5 only accepts
// literal values in (as const ...), so other element sorts get a named array with a defining axiom.
func (e *Enc) constArray(idx string, elem types.Type) Term {
	z := e.zero(elem)
	es := e.sortOf(elem)
	switch z {
	case "0", "false", "0.0", "anil", "(mkslice 0 0 0 0)":
		return fmt.Sprintf("((as const (Array %s %s)) %s)", idx, es, z)
	}
	n := sym("zarr$" + idx + "$" + es)
	e.decl("zarr:"+n, fmt.Sprintf("(declare-const %s (Array %s %s))\n(assert (forall ((j %s)) (! (= (select %s j) %s) :pattern ((select %s j)))))", n, idx, es, idx, n, z, n))
	return n
}

// box/unbox for values whose sort has no direct Any constructor.
func (e *Enc) boxFn(sort string) (string, string) {
	b, u := sym("box$"+sort), sym("unbox$"+sort)
	if !e.boxed[sort] {
		e.boxed[sort] = true
		e.decl("box:"+sort, fmt.Sprintf("(declare-fun %s (%s) Int)\n(declare-fun %s (Int) %s)\n(assert (forall ((x %s)) (! (= (%s (%s x)) x) :pattern ((%s x)))))", b, sort, u, sort, sort, u, b, b))
	}
	return b, u
}

// toAny wraps a value of static (non-interface) type t.
func (e *Enc) toAny(t types.Type, v Term) Term {
	if _, ok := t.Underlying().(*types.Interface); ok {
		return v
	}
	tag := e.tag(t)
	switch s := e.sortOf(t); s {
	case "Bool":
		return app("abool", tag, v)
	case "Int":
		if isRefType(t) {
			return app("aref", tag, v)
		}
		return app("aint", tag, v)
	case "Real":
		return app("areal", tag, v)
	case "Str":
		return app("astr", tag, v)
	case "Slice":
		return app("aslice", tag, v)
	default:
		b, _ := e.boxFn(s)
		e.boxSurjective(t, s)
		return app("abox", tag, app(b, v))
	}
}

// boxSurjective: for a struct sort that is countably infinite (integer / string / bool fields only, at least one
// integer), box and unbox are made mutually inverse: every boxed payload that is ever unboxed is the box of what
// it unboxes to, so any(x.(T)) == x for an x holding a T. (Sorts with real-valued fields are left with the
// one-directional axiom only.)
func (e *Enc) boxSurjective(t types.Type, sort string) {
	if e.declared["boxsurj:"+sort] {
		return
	}
	hasInt := false
	var ok func(t types.Type, depth int) bool
	ok = func(t types.Type, depth int) bool {
		if depth > 4 {
			return false
		}
		switch u := t.Underlying().(type) {
		case *types.Basic:
			if u.Info()&types.IsInteger != 0 {
				hasInt = true
				return true
			}
			return u.Info()&(types.IsBoolean|types.IsString) != 0
		case *types.Pointer, *types.Map, *types.Chan:
			hasInt = true
			return true
		case *types.Struct:
			for i := 0; i < u.NumFields(); i++ {
				if !ok(u.Field(i).Type(), depth+1) {
					return false
				}
			}
			return true
		}
		return false
	}
	if !ok(t, 0) || !hasInt {
		return
	}
	b, u := e.boxFn(sort)
	e.decl("boxsurj:"+sort, fmt.Sprintf("(assert (forall ((i Int)) (! (= (%s (%s i)) i) :pattern ((%s i)))))", b, u, u))
}

// fromAny extracts the payload of an Any known (or assumed) to hold type t.
func (e *Enc) fromAny(t types.Type, a Term) Term {
	if _, ok := t.Underlying().(*types.Interface); ok {
		return a
	}
	switch s := e.sortOf(t); s {
	case "Bool":
		return app("abv", a)
	case "Int":
		if isRefType(t) {
			return app("arf", a)
		}
		return app("aiv", a)
	case "Real":
		return app("arv", a)
	case "Str":
		return app("asv", a)
	case "Slice":
		return app("aslv", a)
	default:
		_, u := e.boxFn(s)
		e.boxSurjective(t, s)
		return app(u, app("abx", a))
	}
}

// isType: does Any a hold dynamic type t (concrete) / implement t (interface)?
func (e *Enc) isType(t types.Type, a Term) Term {
	if it, ok := t.Underlying().(*types.Interface); ok {
		if it.NumMethods() == 0 {
			return not(app("(_ is anil)", a))
		}
		p := sym("impl$" + e.typeKey(t))
		e.decl("impl:"+e.typeKey(t), fmt.Sprintf("(declare-fun %s (Int) Bool)\n(assert (not (%s 0)))", p, p))
		return app(p, app("tagof", a))
	}
	tag := e.tag(t)
	var tester string
	switch s := e.sortOf(t); s {
	case "Bool":
		tester = "abool"
	case "Int":
		if isRefType(t) {
			tester = "aref"
		} else {
			tester = "aint"
		}
	case "Real":
		tester = "areal"
	case "Str":
		tester = "astr"
	case "Slice":
		tester = "aslice"
	default:
		tester = "abox"
	}
	return and(app("(_ is "+tester+")", a), app("=", app("tagof", a), tag))
}

// implFact records whether concrete type c implements interface i.
func (e *Enc) implFact(i types.Type, c types.Type) {
	it, ok := i.Underlying().(*types.Interface)
	if !ok || it.NumMethods() == 0 {
		return
	}
	if _, isIface := c.Underlying().(*types.Interface); isIface {
		return
	}
	k := e.typeKey(i) + "<-" + e.typeKey(c)
	if e.implFacts[k] {
		return
	}
	e.implFacts[k] = true
	e.isType(i, "anil") // make sure the predicate is declared
	p := sym("impl$" + e.typeKey(i))
	val := types.Implements(c, it)
	fact := app(p, e.tag(c))
	if !val {
		fact = not(fact)
	}
	e.decl("implfact:"+k, "(assert "+fact+")")
}

func isRefType(t types.Type) bool {
	switch t.Underlying().(type) {
	case *types.Pointer, *types.Map, *types.Chan, *types.Signature:
		return true
	}
	if b, ok := t.Underlying().(*types.Basic); ok && b.Kind() == types.UnsafePointer {
		return true
	}
	return false
}

// ---------------------------------------------------------------- heap components

func (e *Enc) comp(name, sort string) string {
	if s, ok := e.compSort[name]; ok && s != sort {
		panic(fmt.Sprintf("component %s: sort clash %s vs %s", name, s, sort))
	}
	e.compSort[name] = sort
	return name
}

func (e *Enc) cellComp(t types.Type) string {
	return e.comp("C$"+e.typeKey(t), "(Array Int "+e.sortOf(t)+")")
}

func (e *Enc) arrComp(elem types.Type) string {
	return e.comp("A$"+e.typeKey(elem), "(Array Int (Array Int "+e.sortOf(elem)+"))")
}

func (e *Enc) mapComps(m *types.Map) (dom, val, ln string) {
	k := e.typeKey(m.Key()) + "$" + e.typeKey(m.Elem())
	ks, vs := e.sortOf(m.Key()), e.sortOf(m.Elem())
	dom = e.comp("Md$"+k, "(Array Int (Array "+ks+" Bool))")
	val = e.comp("Mv$"+k, "(Array Int (Array "+ks+" "+vs+"))")
	ln = e.comp("Ml$"+k, "(Array Int Int)")
	return
}

const nextComp = "$next"

// Mem is a lazily evaluated heap state: a DAG of updates, havocs and joins.
type Mem struct {
	id     int
	kind   string // base, upd, havoc, join
	parent *Mem
	comp   string
	term   Term
	set    map[string]bool // havoc: comps replaced (nil = all)
	keep   map[string]bool // havoc-all: comps preserved
	preds  []*Mem
	conds  []Term
	cache  map[string]Term
	emit   func(string)
	enc    *Enc
	note   string
}

func (e *Enc) newMem(kind string, emit func(string)) *Mem {
	e.memCounter++
	return &Mem{id: e.memCounter, kind: kind, cache: map[string]Term{}, emit: emit, enc: e}
}

func (m *Mem) get(comp string) Term {
	if t, ok := m.cache[comp]; ok {
		return t
	}
	var t Term
	sort, ok := m.enc.compSort[comp]
	if !ok {
		panic("unknown heap component " + comp)
	}
	freshConst := func() Term {
		n := sym(fmt.Sprintf("%s@%d", comp, m.id))
		m.emit(fmt.Sprintf("(declare-const %s %s)", n, sort))
		// nil is never a map with entries
		if strings.HasPrefix(comp, "Md$") {
			ks := sort[len("(Array Int (Array ") : len(sort)-len(" Bool))")]
			m.emit(fmt.Sprintf("(assert (= (select %s 0) ((as const (Array %s Bool)) false)))", n, ks))
		}
		if strings.HasPrefix(comp, "Ml$") {
			m.emit(fmt.Sprintf("(assert (= (select %s 0) 0))", n))
		}
		return n
	}
	switch m.kind {
	case "base":
		t = freshConst()
	case "upd":
		if comp == m.comp {
			t = m.term
		} else {
			t = m.parent.get(comp)
		}
	case "havoc":
		replaced := m.set == nil && !m.keep[comp] || m.set != nil && m.set[comp]
		if replaced {
			t = freshConst()
			if comp == nextComp {
				m.emit(fmt.Sprintf("(assert (>= %s %s))", t, m.parent.get(comp)))
			}
		} else {
			t = m.parent.get(comp)
		}
	case "join":
		ts := make([]Term, len(m.preds))
		same := true
		for i, p := range m.preds {
			ts[i] = p.get(comp)
			if ts[i] != ts[0] {
				same = false
			}
		}
		if same {
			t = ts[0]
		} else {
			n := sym(fmt.Sprintf("%s@%d", comp, m.id))
			body := ts[len(ts)-1]
			for i := len(ts) - 2; i >= 0; i-- {
				body = app("ite", m.conds[i], ts[i], body)
			}
			m.emit(fmt.Sprintf("(declare-const %s %s)\n(assert (= %s %s))", n, sort, n, body))
			t = n
		}
	}
	m.cache[comp] = t
	return t
}

func (m *Mem) update(comp string, term Term) *Mem {
	n := m.enc.newMem("upd", m.emit)
	if strings.ContainsAny(term, "( ") {
		// name every heap version: terms stay small and E-matching sees atoms
		sort := m.enc.compSort[comp]
		c := sym(fmt.Sprintf("%s@%d", comp, n.id))
		m.emit(fmt.Sprintf("(declare-const %s %s)\n(assert (= %s %s))", c, sort, c, term))
		term = c
	}
	n.parent, n.comp, n.term = m, comp, term
	return n
}

// havoc replaces the listed components (nil = all except keep) by fresh values.
func (m *Mem) havoc(set map[string]bool, keep map[string]bool) *Mem {
	n := m.enc.newMem("havoc", m.emit)
	n.parent, n.set, n.keep = m, set, keep
	return n
}

func joinMems(e *Enc, emit func(string), preds []*Mem, conds []Term) *Mem {
	if len(preds) == 1 {
		return preds[0]
	}
	n := e.newMem("join", emit)
	n.preds, n.conds = preds, conds
	return n
}

func sortedKeys(m map[string]bool) []string {
	var out []string
	for k := range m {
		out = append(out, k)
	}
	sort.Strings(out)
	return out
}
