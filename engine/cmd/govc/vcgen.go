package main

// Verification-condition generation from go/ssa (passive form, loops cut at contracted headers).

import (
	"fmt"
	"go/constant"
	"go/token"
	"go/types"
	"os"
	"sort"
	"strings"

	"golang.org/x/tools/go/ssa"
)

type Obligation struct {
	Name      string
	Func      string
	Kind      string // ensures, requires, loop, safety, assigns, lemma, cover, canary, lockset, ...
	Prefix    int    // number of script lines this obligation may assume
	Guard     Term
	Goal      Term
	ExpectSat bool // cover obligations: must be satisfiable
	Pos       token.Position
	Text      string // the contract clause / source construct
	vc        *FnVC
	Extra     []string // additional assertions (after prefix, before goal)
}

type Loop struct {
	Header    *ssa.BasicBlock
	Blocks    map[*ssa.BasicBlock]bool
	Latches   []*ssa.BasicBlock
	Ordinal   int
	MinPos    token.Pos
	Contract  *LoopContract
	headerEnv *Env
	rangeComp string // visited-set component if this is a map range loop
	entryMem  *Mem
	frame     []string // components with the implicit frame invariant (old objects unchanged since function entry)
}

type TV struct {
	t    Term
	ty   types.Type
	pure bool // ghost/math value: maps are total SMT arrays, no heap indirection
	lit  bool // untyped numeric literal
}

type FnVC struct {
	w                *World
	e                *Enc
	fn               *ssa.Function
	ct               *FuncContract
	cf               *ContractFile
	name             string // short name
	lines            []string
	vals             map[ssa.Value]Term
	tuples           map[ssa.Value][]Term
	blockLit         map[*ssa.BasicBlock]Term
	memOut           map[*ssa.BasicBlock]*Mem
	obls             []*Obligation
	loops            []*Loop
	loopOf           map[*ssa.BasicBlock]*Loop // header -> loop
	counters         map[string]int
	mem0             *Mem
	params           map[string]TV
	ghostTy          map[string]types.Type
	debug            map[*ssa.BasicBlock][]debugBind
	private          map[*ssa.Alloc]string
	protected        []*ssa.Alloc
	panicPoints      []panicPoint
	pendingSite      string
	immut            map[*ssa.Alloc]ssa.Value
	siteOrd          map[ssa.Instruction]int
	fvConst          map[*ssa.FreeVar]Term // immutable captured variables: one constant per variable
	staleCallees     []string              // callees whose contract names identifiers they no longer have: what is proved from them is undecided
	lenient          bool                  // salvage mode after a shape mismatch: call-site clauses that cannot be bound are skipped (recorded in skipped)
	skipped          []string
	cellOf           map[types.Object]ssa.Value // variables that live in a cell (closure-captured or address-taken)
	curIdx           int
	lastCalleeGhosts map[string]TV
	pendingArgs      []TV
	closures         map[ssa.Value]*ssa.MakeClosure
	warnings         []string
	callOrd          map[string]int
	defers           []*ssa.Defer
	rangeMap         map[*ssa.Range]string
	retN             int
	retLits          []Term
	matchedSites     map[string]bool
	trustedUsed      map[string]bool
	curBlock         *ssa.BasicBlock
	cur              *Mem
	mode             string // "full" or "safety"
}

type panicPoint struct {
	lit Term
	mem *Mem
}

type debugBind struct {
	name   string
	val    ssa.Value
	isAddr bool
	idx    int
	obj    types.Object
}

func (vc *FnVC) emit(s string) { vc.lines = append(vc.lines, s) }

func (vc *FnVC) warn(f string, a ...interface{}) {
	vc.warnings = append(vc.warnings, fmt.Sprintf(f, a...))
}

func (vc *FnVC) define(name, sort string, t Term) Term {
	n := sym(name)
	// passive form: an atomic constant plus a defining equation (keeps E-matching terms small)
	vc.emit(fmt.Sprintf("(declare-const %s %s)\n(assert (= %s %s))", n, sort, n, t))
	return n
}

func (vc *FnVC) declare(name, sort string) Term {
	n := sym(name)
	vc.emit(fmt.Sprintf("(declare-const %s %s)", n, sort))
	return n
}

func (vc *FnVC) assume(guard, fact Term) {
	if fact == "true" {
		return
	}
	// Every symbol is declared globally (passive form), so a fact about a value computed in a block must not constrain the
	// paths that never reach that block: an "unconditional" assumption made while a block is being translated is guarded
	// by that block's reachability literal. (Unguarded, the well-formedness of `path[1:]` - len(path)-1 >= 0 - made the
	// whole len(path) == 0 branch of a function vacuous; found when a reverted fix still proved.)
	if guard == "true" && vc.curBlock != nil {
		if bl, ok := vc.blockLit[vc.curBlock]; ok && bl != "" {
			guard = bl
		}
	}
	vc.emit("(assert " + implies(guard, fact) + ")")
}

func (vc *FnVC) oblige(kind, name string, guard, goal Term, pos token.Pos, text string) *Obligation {
	o := &Obligation{Name: vc.qualName() + "/" + name, Func: vc.qualName(), Kind: kind, Prefix: len(vc.lines), Guard: guard, Goal: goal, Text: text, vc: vc}
	if pos.IsValid() {
		o.Pos = vc.w.fset.Position(pos)
	}
	vc.obls = append(vc.obls, o)
	return o
}

func (vc *FnVC) qualName() string { return vc.fn.Pkg.Pkg.Name() + "." + vc.name }

func (vc *FnVC) count(kind string) int {
	vc.counters[kind]++
	return vc.counters[kind]
}

// safety obligation followed by the assumption that execution continued.
func (vc *FnVC) safety(kind string, cond Term, pos token.Pos, text string) {
	if cond == "true" {
		return
	}
	b := vc.blockLit[vc.curBlock]
	n := vc.count("safety." + kind)
	vc.oblige("safety", fmt.Sprintf("safety.%s#%d", kind, n), b, cond, pos, text)
	vc.assume(b, cond)
}

// ---------------------------------------------------------------- loops and block order

func (vc *FnVC) findLoops() {
	fn := vc.fn
	vc.loopOf = map[*ssa.BasicBlock]*Loop{}
	for _, b := range fn.Blocks {
		for _, s := range b.Succs {
			if s.Dominates(b) { // back edge b -> s
				l := vc.loopOf[s]
				if l == nil {
					l = &Loop{Header: s, Blocks: map[*ssa.BasicBlock]bool{s: true}}
					vc.loopOf[s] = l
					vc.loops = append(vc.loops, l)
				}
				l.Latches = append(l.Latches, b)
				// natural loop body
				stack := []*ssa.BasicBlock{b}
				for len(stack) > 0 {
					x := stack[len(stack)-1]
					stack = stack[:len(stack)-1]
					if l.Blocks[x] {
						continue
					}
					l.Blocks[x] = true
					stack = append(stack, x.Preds...)
				}
			}
		}
	}
	for _, l := range vc.loops {
		l.MinPos = token.Pos(1 << 40)
		for b := range l.Blocks {
			for _, in := range b.Instrs {
				if p := in.Pos(); p.IsValid() && p < l.MinPos {
					l.MinPos = p
				}
				if d, ok := in.(*ssa.DebugRef); ok {
					if p := d.Expr.Pos(); p.IsValid() && p < l.MinPos {
						l.MinPos = p
					}
				}
			}
		}
	}
	sort.Slice(vc.loops, func(i, j int) bool {
		if vc.loops[i].MinPos != vc.loops[j].MinPos {
			return vc.loops[i].MinPos < vc.loops[j].MinPos
		}
		return vc.loops[i].Header.Index < vc.loops[j].Header.Index
	})
	for i, l := range vc.loops {
		l.Ordinal = i + 1
		if vc.ct != nil {
			l.Contract = vc.ct.Loops[l.Ordinal]
		}
	}
}

func (vc *FnVC) isBackEdge(from, to *ssa.BasicBlock) bool {
	return vc.loopOf[to] != nil && to.Dominates(from)
}

func (vc *FnVC) blockOrder() []*ssa.BasicBlock {
	seen := map[*ssa.BasicBlock]bool{}
	rpo := func(root *ssa.BasicBlock) []*ssa.BasicBlock {
		var order []*ssa.BasicBlock
		var visit func(b *ssa.BasicBlock)
		visit = func(b *ssa.BasicBlock) {
			seen[b] = true
			for _, s := range b.Succs {
				if !seen[s] && !vc.isBackEdge(b, s) {
					visit(s)
				}
			}
			order = append(order, b)
		}
		visit(root)
		for i, j := 0, len(order)-1; i < j; i, j = i+1, j-1 {
			order[i], order[j] = order[j], order[i]
		}
		return order
	}
	order := rpo(vc.fn.Blocks[0])
	if vc.fn.Recover != nil && !seen[vc.fn.Recover] {
		order = append(order, rpo(vc.fn.Recover)...)
	}
	return order
}

// ---------------------------------------------------------------- values

func (vc *FnVC) val(v ssa.Value) Term {
	if t, ok := vc.vals[v]; ok {
		return t
	}
	switch c := v.(type) {
	case *ssa.Const:
		return vc.constTerm(c)
	case *ssa.Global:
		// address of a package-level variable: a stable non-nil ref per global
		n := sym("glob$" + c.Pkg.Pkg.Name() + "." + c.Name())
		vc.e.decl("glob:"+n, fmt.Sprintf("(declare-const %s Int)\n(assert (< %s 0))", n, n))
		vc.vals[v] = n
		return n
	case *ssa.Function:
		n := sym("fn$" + c.String())
		vc.e.decl("fn:"+n, fmt.Sprintf("(declare-const %s Int)\n(assert (< %s 0))", n, n))
		return n
	case *ssa.Builtin:
		return "0"
	case *ssa.FieldAddr:
		return vc.addrValue(c)
	case *ssa.IndexAddr:
		vc.warn("address of element escapes: %s", c)
		t := vc.declare(vc.e.fresh("addr"), "Int")
		vc.vals[v] = t
		return t
	}
	panic(unsupported{fmt.Sprintf("value %s (%T) used before definition", v.Name(), v)})
}

func (vc *FnVC) constTerm(c *ssa.Const) Term {
	t := c.Type()
	if c.Value == nil {
		return vc.e.zero(t)
	}
	switch u := t.Underlying().(type) {
	case *types.Basic:
		info := u.Info()
		switch {
		case info&types.IsBoolean != 0:
			if constant.BoolVal(c.Value) {
				return "true"
			}
			return "false"
		case info&types.IsInteger != 0:
			if i, ok := constant.Int64Val(constant.ToInt(c.Value)); ok {
				return intLit(i)
			}
			if ui, ok := constant.Uint64Val(constant.ToInt(c.Value)); ok {
				return fmt.Sprintf("%d", ui)
			}
		case info&types.IsFloat != 0:
			f, _ := constant.Float64Val(c.Value)
			if f == float64(int64(f)) {
				if f < 0 {
					return fmt.Sprintf("(- %d.0)", int64(-f))
				}
				return fmt.Sprintf("%d.0", int64(f))
			}
			r := constant.ToFloat(c.Value)
			num, _ := constant.Int64Val(constant.Num(r))
			den, _ := constant.Int64Val(constant.Denom(r))
			if num < 0 {
				return fmt.Sprintf("(- (/ %d.0 %d.0))", -num, den)
			}
			return fmt.Sprintf("(/ %d.0 %d.0)", num, den)
		case info&types.IsString != 0:
			return vc.e.strLit(constant.StringVal(c.Value))
		}
	}
	panic(unsupported{fmt.Sprintf("constant %s", c)})
}

// ---------------------------------------------------------------- lvalues

type lvStep struct {
	field int // >=0: struct field index
	si    *structInfo
	index Term // array element (field == -1)
	sort  string
}

type LV struct {
	comp  string
	ref   Term
	steps []lvStep
	typ   types.Type // type of the addressed location
}

func (vc *FnVC) lvOf(p ssa.Value) *LV {
	switch a := p.(type) {
	case *ssa.FieldAddr:
		st := a.X.Type().Underlying().(*types.Pointer).Elem()
		si := vc.e.structOf(st)
		ft := si.ftypes[a.Field]
		base := vc.lvOf(a.X)
		lv := &LV{comp: base.comp, ref: base.ref, steps: append(append([]lvStep{}, base.steps...), lvStep{field: a.Field, si: si}), typ: ft}
		return lv
	case *ssa.IndexAddr:
		idx := vc.val(a.Index)
		switch xt := a.X.Type().Underlying().(type) {
		case *types.Slice:
			s := vc.val(a.X)
			return &LV{comp: vc.e.arrComp(xt.Elem()), ref: app("sref", s), steps: []lvStep{{field: -1, index: app("at", app("soff", s), idx)}}, typ: xt.Elem()}
		case *types.Pointer:
			at := xt.Elem().Underlying().(*types.Array)
			base := vc.lvOf(a.X)
			return &LV{comp: base.comp, ref: base.ref, steps: append(append([]lvStep{}, base.steps...), lvStep{field: -1, index: idx}), typ: at.Elem()}
		}
	case *ssa.Alloc:
		t := a.Type().Underlying().(*types.Pointer).Elem()
		if c, ok := vc.private[a]; ok {
			return &LV{comp: c, ref: vc.val(a), typ: t}
		}
	}
	pt, ok := p.Type().Underlying().(*types.Pointer)
	if !ok {
		panic(unsupported{fmt.Sprintf("lvalue of non-pointer %s", p)})
	}
	t := pt.Elem()
	if at, ok := t.Underlying().(*types.Array); ok {
		// pointer to array: backing lives in the element-array heap
		return &LV{comp: vc.e.arrComp(at.Elem()), ref: vc.val(p), typ: t}
	}
	return &LV{comp: vc.e.cellComp(t), ref: vc.val(p), typ: t}
}

func (vc *FnVC) loadLV(lv *LV, m *Mem) Term {
	t := app("select", m.get(lv.comp), lv.ref)
	for _, s := range lv.steps {
		if s.field >= 0 {
			t = app(s.si.fields[s.field], t)
		} else {
			t = app("select", t, s.index)
		}
	}
	return t
}

func (vc *FnVC) storeLV(lv *LV, m *Mem, v Term) *Mem {
	base := app("select", m.get(lv.comp), lv.ref)
	var rebuild func(cur Term, steps []lvStep) Term
	rebuild = func(cur Term, steps []lvStep) Term {
		if len(steps) == 0 {
			return v
		}
		s := steps[0]
		if s.field >= 0 {
			args := make([]string, len(s.si.fields))
			for i, sel := range s.si.fields {
				if i == s.field {
					args[i] = rebuild(app(sel, cur), steps[1:])
				} else {
					args[i] = app(sel, cur)
				}
			}
			return app(s.si.ctor, args...)
		}
		return app("store", cur, s.index, rebuild(app("select", cur, s.index), steps[1:]))
	}
	nv := rebuild(base, lv.steps)
	return m.update(lv.comp, app("store", m.get(lv.comp), lv.ref, nv))
}

// addrValue: a FieldAddr used as a first-class pointer (embedded struct, mutex, atomic word).
func (vc *FnVC) addrValue(a *ssa.FieldAddr) Term {
	st := a.X.Type().Underlying().(*types.Pointer).Elem()
	k := vc.e.typeKey(st)
	fname := st.Underlying().(*types.Struct).Field(a.Field).Name()
	f := sym("sub$" + k + "$" + fname)
	if _, ok := vc.e.subIdx[f]; !ok {
		vc.e.subIdx[f] = len(vc.e.subIdx) + 1
	}
	// an injective arithmetic encoding: distinct (struct, field) pairs and distinct parents give distinct negative refs
	vc.e.decl("sub:"+f, fmt.Sprintf("(define-fun %s ((r Int)) Int (- (- (* r 1024)) %d))", f, vc.e.subIdx[f]))
	vc.e.assumption["inner pointers &x.f of by-value struct fields are modelled as separate objects sub$T$f(x) (injective, never nil); whole-struct copies of such structs are not modelled"] = true
	return app(f, vc.val(a.X))
}

// ---------------------------------------------------------------- main translation

func (vc *FnVC) translate() (err error) {
	defer func() {
		if r := recover(); r != nil {
			if u, ok := r.(unsupported); ok {
				err = fmt.Errorf("%s: outside the verified subset: %s", vc.qualName(), u.msg)
				return
			}
			panic(r)
		}
	}()
	fn := vc.fn
	if len(fn.Blocks) == 0 {
		return fmt.Errorf("%s: no body", vc.qualName())
	}
	vc.e.compSort[nextComp] = "Int"
	vc.findLoops()
	vc.collectDebug()
	vc.findPrivate()
	vc.findProtected()
	vc.mem0 = vc.e.newMem("base", vc.emit)
	vc.assume("true", app(">", vc.mem0.get(nextComp), "0"))

	// parameters
	vc.params = map[string]TV{}
	for _, p := range fn.Params {
		t := vc.declare("p$"+p.Name(), vc.e.sortOf(p.Type()))
		vc.vals[p] = t
		vc.params[p.Name()] = TV{t: t, ty: p.Type()}
		vc.assumeWF(t, p.Type(), vc.mem0)
	}
	for _, p := range fn.FreeVars {
		t := vc.declare("fv$"+p.Name(), vc.e.sortOf(p.Type()))
		vc.vals[p] = t
		vc.params[p.Name()] = TV{t: t, ty: p.Type()}
		vc.assumeWF(t, p.Type(), vc.mem0)
		vc.assume("true", app(">", t, "0"))
	}
	// ghost parameters and ghost variables
	vc.ghostTy = map[string]types.Type{}
	if vc.ct != nil {
		for _, g := range vc.ct.GhostPar {
			ty, err := vc.w.resolveType(fn.Pkg.Pkg, g.Typ)
			if err != nil {
				return fmt.Errorf("%s: ghostparam %s: %v", vc.qualName(), g.Name, err)
			}
			t := vc.declare("gp$"+g.Name, vc.pureSort(ty))
			vc.params[g.Name] = TV{t: t, ty: ty, pure: true}
		}
		for _, g := range vc.ct.Ghosts {
			ty, err := vc.w.resolveType(fn.Pkg.Pkg, g.Typ)
			if err != nil {
				return fmt.Errorf("%s: ghost %s: %v", vc.qualName(), g.Name, err)
			}
			vc.ghostTy[g.Name] = ty
			vc.e.comp("G$"+g.Name, vc.pureSort(ty))
		}
	}

	entryEnv := vc.newEnv(vc.mem0, vc.mem0)
	if vc.ct != nil {
		for i, r := range vc.ct.Requires {
			tv, err := entryEnv.tr(r.E)
			if err != nil {
				return fmt.Errorf("%s: requires#%d: %v", vc.qualName(), i+1, err)
			}
			vc.emit(fmt.Sprintf("; requires#%d %s", i+1, r.Text))
			vc.assume("true", tv.t)
		}
		for i, r := range vc.ct.Assumes {
			tv, err := entryEnv.tr(r.E)
			if err != nil {
				return fmt.Errorf("%s: assume#%d: %v", vc.qualName(), i+1, err)
			}
			vc.emit(fmt.Sprintf("; assume#%d %s", i+1, r.Text))
			vc.assume("true", tv.t)
			vc.trustedUsed[fmt.Sprintf("assume clause of %s: %s", vc.qualName(), r.Text)] = true
		}
		// vacuity: the precondition must be satisfiable
		o := vc.oblige("cover", "cover.requires", "true", "true", fn.Pos(), "precondition satisfiable")
		o.ExpectSat = true
	}

	order := vc.blockOrder()
	memIn := map[*ssa.BasicBlock]*Mem{}
	for _, b := range order {
		vc.curBlock = b
		vc.emit(fmt.Sprintf("; ---- block %d (%s)", b.Index, b.Comment))
		// reachability literal and incoming memory
		var lit Term
		var m *Mem
		loop := vc.loopOf[b]
		switch {
		case b == fn.Blocks[0]:
			lit = "true"
			m = vc.mem0
			if vc.ct != nil {
				m = vc.initGhosts(m)
			}
		case b == fn.Recover:
			// reached when a panic was recovered by a deferred call: the state at one of the calls that may panic
			// (the callee's partial effects included), then the deferred calls ran
			if len(vc.panicPoints) == 0 || !vc.mayRecover() {
				lit = "false"
				m = vc.mem0
				break
			}
			sel := vc.declare(fmt.Sprintf("panicpoint%d", b.Index), "Int")
			var conds []Term
			var mems []*Mem
			for k, pp := range vc.panicPoints {
				conds = append(conds, and(pp.lit, app("=", sel, fmt.Sprint(k))))
				mems = append(mems, pp.mem)
			}
			lit = vc.define(fmt.Sprintf("b%d", b.Index), "Bool", or(conds...))
			vc.blockLit[b] = lit
			vc.cur = joinMems(vc.e, vc.emit, mems, conds)
			vc.runDefersAtRecover()
			m = vc.cur
		default:
			var edges []Term
			var mems []*Mem
			for _, p := range b.Preds {
				if vc.isBackEdge(p, b) {
					continue
				}
				if _, done := vc.blockLit[p]; !done {
					continue // unreachable predecessor (e.g. only reachable through recover)
				}
				edges = append(edges, vc.edgeLit(p, b))
				mems = append(mems, vc.memOut[p])
			}
			if len(edges) == 0 {
				lit = "false"
				m = vc.mem0
			} else {
				lit = vc.define(fmt.Sprintf("b%d", b.Index), "Bool", or(edges...))
				m = joinMems(vc.e, vc.emit, mems, edges)
			}
		}
		vc.blockLit[b] = lit
		if loop != nil {
			m = vc.enterLoop(loop, lit, m)
		}
		memIn[b] = m
		vc.cur = m
		if lit == "false" {
			// unreachable (e.g. the recover block of a function whose deferred calls never recover)
			delete(vc.blockLit, b)
			continue
		}
		for idx, in := range b.Instrs {
			vc.curIdx = idx
			vc.instr(in)
		}
		vc.curIdx = len(b.Instrs)
		vc.memOut[b] = vc.cur
		// back edges leaving this block
		for _, s := range b.Succs {
			if vc.isBackEdge(b, s) {
				vc.backEdge(vc.loopOf[s], b)
			}
		}
	}
	if vc.ct != nil {
		// every call site a contract names must exist
		for _, ca := range vc.ct.CallAssert {
			if !vc.matchedSites["assert "+ca.Callee] {
				if vc.lenient {
					vc.skipped = append(vc.skipped, fmt.Sprintf("asserts at calls of %q: no such call", ca.Callee))
					continue
				}
				return fmt.Errorf("%s: contract asserts at calls of %q but the function has no such call", vc.qualName(), ca.Callee)
			}
			// a clause that names the k-th call must bind to a k-th call: a clause left without its site would otherwise
			// be dropped silently (a seeded change that removed the second of two calls went unnoticed this way)
			if ca.Ordinal != 0 && !vc.matchedSites[fmt.Sprintf("assert %s#%d", ca.Callee, ca.Ordinal)] {
				if vc.lenient {
					vc.skipped = append(vc.skipped, fmt.Sprintf("asserts at call #%d of %q: no such call", ca.Ordinal, ca.Callee))
					continue
				}
				return fmt.Errorf("%s: contract asserts at call #%d of %q but the function has no such call", vc.qualName(), ca.Ordinal, ca.Callee)
			}
		}
		for _, g := range vc.ct.CallGhost {
			if g.Ordinal != 0 && vc.matchedSites["ghost "+g.Callee] && !vc.matchedSites[fmt.Sprintf("ghost %s#%d", g.Callee, g.Ordinal)] {
				if vc.lenient {
					vc.skipped = append(vc.skipped, fmt.Sprintf("ghost code at call #%d of %q: no such call", g.Ordinal, g.Callee))
					continue
				}
				return fmt.Errorf("%s: contract attaches ghost code to call #%d of %q but the function has no such call", vc.qualName(), g.Ordinal, g.Callee)
			}
			if !vc.matchedSites["ghost "+g.Callee] {
				if vc.lenient {
					vc.skipped = append(vc.skipped, fmt.Sprintf("ghost code at calls of %q: no such call", g.Callee))
					continue
				}
				return fmt.Errorf("%s: contract attaches ghost code to calls of %q but the function has no such call", vc.qualName(), g.Callee)
			}
		}
	}
	if vc.ct != nil && len(vc.retLits) > 0 {
		// vacuity: some return must be reachable under the precondition and the assumed invariants
		o := vc.oblige("cover", "cover.return", or(vc.retLits...), "true", fn.Pos(), "some return reachable under the precondition")
		o.ExpectSat = true
	}
	return nil
}

func (vc *FnVC) keepSet() map[string]bool {
	keep := map[string]bool{}
	for c := range vc.e.compSort {
		if strings.HasPrefix(c, "G$") || strings.HasPrefix(c, "R$") || strings.HasPrefix(c, "L$") {
			keep[c] = true
		}
	}
	return keep
}

// mayRecover: does some deferred closure of this function call recover()? Otherwise panics propagate and the
// recover block is dead code.
func (vc *FnVC) mayRecover() bool {
	for _, b := range vc.fn.Blocks {
		for _, in := range b.Instrs {
			d, ok := in.(*ssa.Defer)
			if !ok {
				continue
			}
			var callee *ssa.Function
			switch v := d.Call.Value.(type) {
			case *ssa.MakeClosure:
				callee = v.Fn.(*ssa.Function)
			case *ssa.Function:
				callee = v
			case *ssa.Extract:
				// the cancel function returned by context.WithCancel / WithTimeout / WithDeadline never recovers
				if c, ok := v.Tuple.(*ssa.Call); ok {
					if f := c.Call.StaticCallee(); f != nil && f.Pkg != nil && f.Pkg.Pkg.Path() == "context" {
						continue
					}
				}
				return true
			default:
				if !d.Call.IsInvoke() {
					return true // unknown deferred function value
				}
			}
			if callee != nil && len(callee.Blocks) > 0 {
				for _, cb := range callee.Blocks {
					for _, ci := range cb.Instrs {
						if c, ok := ci.(*ssa.Call); ok {
							if bi, ok := c.Call.Value.(*ssa.Builtin); ok && bi.Name() == "recover" {
								return true
							}
						}
					}
				}
			}
		}
	}
	return false
}

// keepSetWithKeeps: like keepSet, plus the components the contract's (trusted) `keeps` clause declares out of reach
// of the opaque callees of this function.
func (vc *FnVC) keepSetWithKeeps() map[string]bool {
	keep := vc.keepSet()
	if vc.ct == nil || len(vc.ct.Keeps) == 0 {
		return keep
	}
	fake := &FuncContract{HasAssign: true, Assigns: vc.ct.Keeps}
	set, _ := vc.w.assignSet(vc.e, vc.fn.Pkg.Pkg, fake)
	for c := range set {
		keep[c] = true
	}
	vc.trustedUsed[fmt.Sprintf("keeps clause of %s: opaque callees do not modify %s", vc.qualName(), strings.Join(vc.ct.Keeps, ", "))] = true
	return keep
}

func (vc *FnVC) initGhosts(m *Mem) *Mem {
	env := vc.newEnv(m, vc.mem0)
	for _, g := range vc.ct.EntryGhost {
		m = vc.applyGhost(env, g, m)
		env.mem = m
	}
	return m
}

// assumeWF: type invariants of an input value.
func (vc *FnVC) assumeWF(t Term, ty types.Type, m *Mem) {
	switch u := ty.Underlying().(type) {
	case *types.Slice:
		vc.assume("true", and(app(">=", app("slen", t), "0"), app(">=", app("scap", t), app("slen", t)), app(">=", app("soff", t), "0"),
			app(">=", app("sref", t), "0"), app("<", app("sref", t), m.get(nextComp)),
			implies(app("=", app("sref", t), "0"), and(app("=", app("slen", t), "0"), app("=", app("scap", t), "0")))))
	case *types.Pointer, *types.Map, *types.Chan:
		vc.assume("true", and(app(">=", t, "0"), app("<", t, m.get(nextComp))))
	case *types.Interface:
		// references held in an interface value are allocated objects
		n := m.get(nextComp)
		vc.assume("true", and(implies(app("(_ is aref)", t), and(app(">=", app("arf", t), "0"), app("<", app("arf", t), n))),
			implies(app("(_ is aslice)", t), app("<", app("sref", app("aslv", t)), n))))
	case *types.Basic:
		if u.Info()&types.IsUnsigned != 0 {
			vc.assume("true", app(">=", t, "0"))
		}
	}
}

func (vc *FnVC) edgeLit(p, b *ssa.BasicBlock) Term {
	bl := vc.blockLit[p]
	if len(p.Instrs) == 0 {
		return bl
	}
	if iff, ok := p.Instrs[len(p.Instrs)-1].(*ssa.If); ok {
		c := vc.val(iff.Cond)
		if p.Succs[0] == b && p.Succs[1] == b {
			return bl
		}
		if p.Succs[0] == b {
			return and(bl, c)
		}
		return and(bl, not(c))
	}
	return bl
}

func (vc *FnVC) collectDebug() {
	vc.debug = map[*ssa.BasicBlock][]debugBind{}
	vc.cellOf = map[types.Object]ssa.Value{}
	// a named variable's cell (Alloc or captured FreeVar) carries the position of the declaring identifier
	byPos := map[token.Pos]ssa.Value{}
	for _, fv := range vc.fn.FreeVars {
		if fv.Pos().IsValid() {
			byPos[fv.Pos()] = fv
		}
	}
	for _, b := range vc.fn.Blocks {
		for _, in := range b.Instrs {
			if a, ok := in.(*ssa.Alloc); ok && a.Comment != "" && a.Pos().IsValid() {
				byPos[a.Pos()] = a
			}
		}
	}
	for _, b := range vc.fn.Blocks {
		for i, in := range b.Instrs {
			if d, ok := in.(*ssa.DebugRef); ok {
				if obj := debugObject(d); obj != nil {
					vc.debug[b] = append(vc.debug[b], debugBind{name: obj.Name(), val: d.X, isAddr: d.IsAddr, idx: i, obj: obj})
					if cell, ok := byPos[obj.Pos()]; ok && obj.Pos().IsValid() {
						vc.cellOf[obj] = cell
					}
					if d.IsAddr {
						switch d.X.(type) {
						case *ssa.Alloc, *ssa.FreeVar:
							// the variable lives in this cell: every mention of it denotes the cell's current content
							vc.cellOf[obj] = d.X
						}
					}
				}
			}
		}
	}
}

func debugObject(d *ssa.DebugRef) types.Object {
	// only identifiers denote variables
	return d.Object()
}

// findPrivate: allocations whose address never escapes get a private heap component.
func (vc *FnVC) findPrivate() {
	vc.private = map[*ssa.Alloc]string{}
	for _, b := range vc.fn.Blocks {
		for _, in := range b.Instrs {
			a, ok := in.(*ssa.Alloc)
			if !ok {
				continue
			}
			t := a.Type().Underlying().(*types.Pointer).Elem()
			// (arrays that get sliced escape and live in the element heap)
			if !vc.escapes(a, map[ssa.Value]bool{}) {
				name := fmt.Sprintf("L$%s", a.Name())
				vc.e.comp(name, "(Array Int "+vc.e.sortOf(t)+")")
				vc.private[a] = name
			}
		}
	}
}

// findProtected: local cells whose only escape is being captured by closures that this function only defers or calls.
func (vc *FnVC) findProtected() {
	for _, b := range vc.fn.Blocks {
		for _, in := range b.Instrs {
			a, ok := in.(*ssa.Alloc)
			if !ok || vc.private[a] != "" {
				continue
			}
			if _, isArr := a.Type().Underlying().(*types.Pointer).Elem().Underlying().(*types.Array); isArr {
				continue
			}
			okAll := true
			captured := false
			if refs := a.Referrers(); refs != nil {
				for _, r := range *refs {
					switch u := r.(type) {
					case *ssa.UnOp, *ssa.DebugRef:
					case *ssa.Store:
						if u.Val == ssa.Value(a) {
							okAll = false
						}
					case *ssa.FieldAddr, *ssa.IndexAddr:
						if vc.escapes(u.(ssa.Value), map[ssa.Value]bool{}) {
							okAll = false
						}
					case *ssa.MakeClosure:
						captured = true
						if crefs := u.Referrers(); crefs != nil {
							for _, cr := range *crefs {
								switch c := cr.(type) {
								case *ssa.Defer:
									if c.Call.Value != ssa.Value(u) {
										okAll = false
									}
								case *ssa.Call:
									if c.Call.Value != ssa.Value(u) {
										okAll = false
									}
								case *ssa.DebugRef:
								default:
									okAll = false
								}
							}
						}
					default:
						okAll = false
					}
				}
			}
			if okAll && captured {
				vc.protected = append(vc.protected, a)
			}
		}
	}
}

// protectCells: after a havoc of everything by a callee that cannot reach this function's protected cells, they keep their value.
func (vc *FnVC) protectCells(before, after *Mem) {
	for _, a := range vc.protected {
		r, ok := vc.vals[a]
		if !ok {
			continue
		}
		comp := vc.lvOf0(a)
		x, y := before.get(comp), after.get(comp)
		if x != y {
			vc.assume("true", app("=", app("select", y, r), app("select", x, r)))
		}
	}
}

func (vc *FnVC) escapes(v ssa.Value, seen map[ssa.Value]bool) bool {
	if seen[v] {
		return false
	}
	seen[v] = true
	refs := v.Referrers()
	if refs == nil {
		return true
	}
	for _, r := range *refs {
		switch u := r.(type) {
		case *ssa.UnOp:
			if u.Op != token.MUL {
				return true
			}
		case *ssa.Store:
			if u.Val == v {
				return true
			}
		case *ssa.FieldAddr:
			if _, isStruct := u.Type().Underlying().(*types.Pointer).Elem().Underlying().(*types.Struct); isStruct {
				return true // inner struct pointers are modelled as separate objects
			}
			if vc.escapes(u, seen) {
				return true
			}
		case *ssa.IndexAddr:
			if vc.escapes(u, seen) {
				return true
			}
		case *ssa.DebugRef:
		default:
			return true
		}
	}
	return false
}

// ---------------------------------------------------------------- loops

func (vc *FnVC) loopWrites(l *Loop) (set map[string]bool, all bool) {
	set = map[string]bool{nextComp: true}
	for b := range l.Blocks {
		for _, in := range b.Instrs {
			s, a := vc.instrWrites(in)
			if a {
				all = true
			}
			for c := range s {
				set[c] = true
			}
		}
	}
	// ghost updates attached to call / send / recv / map sites inside the loop
	if vc.ct != nil && len(vc.ct.CallGhost) > 0 {
		sites := map[string]bool{}
		for b := range l.Blocks {
			for _, in := range b.Instrs {
				switch x := in.(type) {
				case ssa.CallInstruction:
					sites[calleeShort(x.Common())] = true
					sites[fmt.Sprintf("%s#%d", calleeShort(x.Common()), vc.siteOrdinal(x, calleeShort(x.Common())))] = true
					if bi, ok := x.Common().Value.(*ssa.Builtin); ok && bi.Name() == "delete" {
						sites["delete:*"] = true
						n, o := vc.mapSiteNameOrd("delete", x.Common().Args[0], x.Pos())
						sites[fmt.Sprintf("%s#%d", n, o)] = true
					}
					if fn, ok := x.Common().Value.(*ssa.Function); ok && fn.Pkg != nil && fn.Pkg.Pkg.Path() == "sync/atomic" {
						sites["atomic.*"] = true
					}
				case *ssa.Send:
					sites["send"] = true
				case *ssa.UnOp:
					if x.Op == token.ARROW {
						sites["recv"] = true
					}
				case *ssa.MapUpdate:
					sites["mapupdate:*"] = true
					n, o := vc.mapSiteNameOrd("mapupdate", x.Map, x.Pos())
					sites[fmt.Sprintf("%s#%d", n, o)] = true
				}
			}
		}
		for _, g := range vc.ct.CallGhost {
			hit := sites[g.Callee]
			if g.Ordinal != 0 && hit {
				// an ordinal-specific hook only counts if that very site is inside the loop (call sites only; other kinds stay conservative)
				if _, isCallSite := sites[fmt.Sprintf("%s#%d", g.Callee, g.Ordinal)]; !isCallSite && !strings.Contains(g.Callee, ":") && g.Callee != "send" && g.Callee != "recv" && !strings.HasPrefix(g.Callee, "atomic.") && !strings.HasPrefix(g.Callee, "mapupdate") && !strings.HasPrefix(g.Callee, "delete") {
					hit = false
				}
			}
			for _, pre := range []string{"delete:", "mapupdate", "atomic."} {
				if strings.HasPrefix(g.Callee, pre) && (sites[pre+"*"] || sites["mapupdate:*"] && pre == "mapupdate") {
					hit = true
				}
			}
			// map sites named with an ordinal: only that very site counts
			if g.Ordinal != 0 && (strings.HasPrefix(g.Callee, "mapupdate") || strings.HasPrefix(g.Callee, "delete")) {
				hit = sites[fmt.Sprintf("%s#%d", g.Callee, g.Ordinal)]
			}
			if os.Getenv("GOVC_DEBUG_SITES") != "" {
				fmt.Fprintf(os.Stderr, "loop %d: ghost hook %s#%d hit=%v sites=%v\n", l.Ordinal, g.Callee, g.Ordinal, hit, sites)
			}
			if hit {
				set["G$"+ghostTargetName(g.Upd.Target)] = true
			}
		}
	}
	// ghost updates of this loop and nested loops
	for _, l2 := range vc.loops {
		if l.Blocks[l2.Header] && l2.Contract != nil {
			for _, g := range l2.Contract.Ghost {
				set["G$"+ghostTargetName(g.Target)] = true
			}
		}
	}
	return
}

func ghostTargetName(e Expr) string {
	switch x := e.(type) {
	case *EIdent:
		return x.Name
	case *EIndex:
		return ghostTargetName(x.X)
	}
	return "?"
}

func (vc *FnVC) instrWrites(in ssa.Instruction) (map[string]bool, bool) {
	set := map[string]bool{}
	switch x := in.(type) {
	case *ssa.Store:
		set[vc.lvComp(x.Addr)] = true
	case *ssa.MapUpdate:
		d, v, l := vc.e.mapComps(x.Map.Type().Underlying().(*types.Map))
		set[d], set[v], set[l] = true, true, true
	case *ssa.Alloc:
		lv := vc.lvOf0(x)
		set[lv] = true
	case *ssa.MakeSlice:
		set[vc.e.arrComp(x.Type().Underlying().(*types.Slice).Elem())] = true
	case *ssa.MakeMap:
		d, v, l := vc.e.mapComps(x.Type().Underlying().(*types.Map))
		set[d], set[v], set[l] = true, true, true
	case *ssa.Next:
		if r, ok := x.Iter.(*ssa.Range); ok {
			if c := vc.rangeCompName(r); c != "" {
				set[c] = true
			}
		}
	case *ssa.Range:
		if c := vc.rangeCompName(x); c != "" {
			set[c] = true
		}
	case ssa.CallInstruction:
		return vc.callWrites(x)
	}
	return set, false
}

func (vc *FnVC) rangeCompName(r *ssa.Range) string {
	mt, ok := r.X.Type().Underlying().(*types.Map)
	if !ok {
		return ""
	}
	if c, ok := vc.rangeMap[r]; ok {
		return c
	}
	c := vc.e.comp("R$"+r.Name(), "(Array "+vc.e.sortOf(mt.Key())+" Bool)")
	vc.rangeMap[r] = c
	return c
}

// lvComp: the component a store through p writes (without emitting anything).
func (vc *FnVC) lvComp(p ssa.Value) string {
	switch a := p.(type) {
	case *ssa.FieldAddr:
		return vc.lvComp(a.X)
	case *ssa.IndexAddr:
		switch xt := a.X.Type().Underlying().(type) {
		case *types.Slice:
			return vc.e.arrComp(xt.Elem())
		case *types.Pointer:
			return vc.lvComp(a.X)
		}
	case *ssa.Alloc:
		return vc.lvOf0(a)
	}
	t := p.Type().Underlying().(*types.Pointer).Elem()
	if at, ok := t.Underlying().(*types.Array); ok {
		return vc.e.arrComp(at.Elem())
	}
	return vc.e.cellComp(t)
}

func (vc *FnVC) lvOf0(a *ssa.Alloc) string {
	if c, ok := vc.private[a]; ok {
		return c
	}
	t := a.Type().Underlying().(*types.Pointer).Elem()
	if at, ok := t.Underlying().(*types.Array); ok {
		return vc.e.arrComp(at.Elem())
	}
	return vc.e.cellComp(t)
}

func (vc *FnVC) enterLoop(l *Loop, lit Term, entry *Mem) *Mem {
	set, all := vc.loopWrites(l)
	var m *Mem
	if all {
		m = entry.havoc(nil, vc.keepSetExcept(set))
	} else {
		m = entry.havoc(set, nil)
	}
	l.entryMem = entry
	vc.emit(fmt.Sprintf("; loop %d header (havoc: all=%v %v)", l.Ordinal, all, sortedKeys(set)))
	// header phis are fresh
	for _, in := range l.Header.Instrs {
		phi, ok := in.(*ssa.Phi)
		if !ok {
			break
		}
		t := vc.declare(fmt.Sprintf("%s$%s", phi.Name(), phi.Comment), vc.e.sortOf(phi.Type()))
		vc.vals[phi] = t
		vc.assumeWF(t, phi.Type(), m)
		if phi.Comment == "rangeindex" && isRangeIndexPhi(phi) {
			// go/ssa's slice-range counter starts at -1 and only ever grows by one: -1 <= rangeindex is inductive by construction
			vc.assume("true", app("<=", "(- 1)", t))
		}
	}
	// implicit frame invariant: components the contract does not allow to change keep the value of every
	// object that existed at function entry (checked on entry and on every back edge like any invariant)
	if vc.ct != nil && vc.ct.HasAssign && !all {
		allowed, allowAll := vc.w.assignSet(vc.e, vc.fn.Pkg.Pkg, vc.ct)
		if !allowAll {
			for _, c := range sortedKeys(set) {
				if c == nextComp || strings.HasPrefix(c, "G$") || strings.HasPrefix(c, "R$") || strings.HasPrefix(c, "L$") || allowed[c] {
					continue
				}
				l.frame = append(l.frame, c)
			}
		}
		for _, c := range l.frame {
			var goals []Term
			for _, p := range l.Header.Preds {
				if vc.isBackEdge(p, l.Header) {
					continue
				}
				if _, done := vc.blockLit[p]; !done {
					continue
				}
				goals = append(goals, implies(vc.edgeLit(p, l.Header), vc.frameFact(c, vc.memOut[p])))
			}
			vc.oblige("loop", fmt.Sprintf("loop%d.frame[%s].init", l.Ordinal, c), "true", and(goals...), l.MinPos, "objects older than the call are unchanged in "+c)
		}
		for _, c := range l.frame {
			vc.assume(lit, vc.frameFact(c, m))
		}
	}
	env := vc.loopEnv(l, m, nil)
	l.headerEnv = env
	// entry obligations (invariant holds initially) and assumption at the header
	if l.Contract != nil {
		// values flowing in along entry edges
		for k, inv := range l.Contract.Invariants {
			// init: for each entry edge
			var goals []Term
			for _, p := range l.Header.Preds {
				if vc.isBackEdge(p, l.Header) {
					continue
				}
				if _, done := vc.blockLit[p]; !done {
					continue
				}
				e2 := vc.loopEnv(l, vc.memOut[p], p)
				tv, err := e2.tr(inv.E)
				if err != nil {
					panic(unsupported{fmt.Sprintf("loop %d invariant %d: %v", l.Ordinal, k+1, err)})
				}
				goals = append(goals, implies(vc.edgeLit(p, l.Header), tv.t))
			}
			vc.oblige("loop", fmt.Sprintf("loop%d.inv%d.init", l.Ordinal, k+1), "true", and(goals...), l.MinPos, inv.Text)
		}
		for k, inv := range l.Contract.Invariants {
			tv, err := env.tr(inv.E)
			if err != nil {
				panic(unsupported{fmt.Sprintf("loop %d invariant %d: %v", l.Ordinal, k+1, err)})
			}
			vc.emit(fmt.Sprintf("; loop %d invariant %d: %s", l.Ordinal, k+1, inv.Text))
			vc.assume(lit, tv.t)
		}
	} else if vc.ct != nil && vc.mode == "full" {
		vc.warn("loop %d has no invariant (treated as 'true')", l.Ordinal)
	}
	return m
}

func isRangeIndexPhi(phi *ssa.Phi) bool {
	inc := 0
	for _, e := range phi.Edges {
		switch v := e.(type) {
		case *ssa.Const:
			if v.Value == nil || v.Int64() != -1 {
				return false
			}
		case *ssa.BinOp:
			c, ok := v.Y.(*ssa.Const)
			if v.Op != token.ADD || v.X != ssa.Value(phi) || !ok || c.Value == nil || c.Int64() != 1 {
				return false
			}
			inc++
		default:
			return false
		}
	}
	return inc > 0
}

func (vc *FnVC) keepSetExcept(set map[string]bool) map[string]bool {
	keep := vc.keepSetWithKeeps()
	for c := range set {
		delete(keep, c)
	}
	return keep
}

// loopEnv builds the naming environment at a loop header. If pred != nil the header phis denote
// the values flowing in from pred (used for init / preservation checks).
func (vc *FnVC) loopEnv(l *Loop, m *Mem, pred *ssa.BasicBlock) *Env {
	env := vc.newEnv(m, vc.mem0)
	env.loop = l
	h := l.Header
	phiVal := func(phi *ssa.Phi) Term {
		if pred == nil {
			return vc.vals[phi]
		}
		for i, p := range h.Preds {
			if p == pred {
				return vc.val(phi.Edges[i])
			}
		}
		panic("pred not found")
	}
	env.resolve = func(name string) (TV, bool) {
		for _, in := range h.Instrs {
			phi, ok := in.(*ssa.Phi)
			if !ok {
				break
			}
			if phi.Comment == name {
				return TV{t: phiVal(phi), ty: phi.Type()}, true
			}
		}
		// walk up the dominator tree
		for d := h.Idom(); d != nil; d = d.Idom() {
			binds := vc.debug[d]
			for i := len(binds) - 1; i >= 0; i-- {
				if binds[i].name == name {
					return vc.debugTV(binds[i], m), true
				}
			}
			for _, in := range d.Instrs {
				phi, ok := in.(*ssa.Phi)
				if !ok {
					break
				}
				if phi.Comment == name {
					// a phi of an enclosing loop header (or join)
					return TV{t: vc.val(phi), ty: phi.Type()}, true
				}
			}
		}
		return TV{}, false
	}
	return env
}

func (vc *FnVC) debugTV(b debugBind, m *Mem) TV {
	if cell, ok := vc.cellOf[b.obj]; ok && !b.isAddr && b.obj != nil {
		// a value binding (e.g. the initialiser in `x := e`) of a variable that lives in a cell
		if a, isAlloc := cell.(*ssa.Alloc); isAlloc {
			if sv := vc.immutableCell(a); sv != nil {
				if _, ok := vc.vals[sv]; ok || isConstOrParam(sv) {
					return TV{t: vc.val(sv), ty: sv.Type()}
				}
			}
		}
		if fv, isFree := cell.(*ssa.FreeVar); isFree && immutableFreeVar(vc.fn, fv, 0) {
			// a captured variable that is never reassigned is a constant in the code; it is the same constant in a clause
			return TV{t: vc.fvConstTerm(fv), ty: fv.Type().Underlying().(*types.Pointer).Elem()}
		}
		if _, defined := vc.vals[cell]; defined || isConstOrParam(cell) {
			lv := vc.lvOf(cell)
			return TV{t: vc.loadLV(lv, m), ty: lv.typ}
		}
	}
	if b.isAddr {
		if fv, isFree := b.val.(*ssa.FreeVar); isFree && immutableFreeVar(vc.fn, fv, 0) {
			return TV{t: vc.fvConstTerm(fv), ty: fv.Type().Underlying().(*types.Pointer).Elem()}
		}
		lv := vc.lvOf(b.val)
		return TV{t: vc.loadLV(lv, m), ty: lv.typ}
	}
	return TV{t: vc.val(b.val), ty: b.val.Type()}
}

func (vc *FnVC) backEdge(l *Loop, latch *ssa.BasicBlock) {
	if l.Contract == nil {
		return
	}
	edge := vc.edgeLit(latch, l.Header)
	m := vc.memOut[latch]
	// ghost updates at the back edge (evaluated with the incoming phi values)
	env := vc.loopEnv(l, m, latch)
	for _, g := range l.Contract.Ghost {
		m = vc.applyGhost(env, g, m)
		env.mem = m
	}
	ord := 0
	for i, p := range l.Latches {
		if p == latch {
			ord = i + 1
		}
	}
	suffix := ""
	if len(l.Latches) > 1 {
		suffix = fmt.Sprintf(".e%d", ord)
	}
	for k, inv := range l.Contract.Invariants {
		tv, err := env.tr(inv.E)
		if err != nil {
			panic(unsupported{fmt.Sprintf("loop %d invariant %d: %v", l.Ordinal, k+1, err)})
		}
		vc.oblige("loop", fmt.Sprintf("loop%d.inv%d.preserved%s", l.Ordinal, k+1, suffix), edge, tv.t, l.MinPos, inv.Text)
	}
	for _, c := range l.frame {
		vc.oblige("loop", fmt.Sprintf("loop%d.frame[%s].preserved%s", l.Ordinal, c, suffix), edge, vc.frameFact(c, m), l.MinPos, "objects older than the call are unchanged in "+c)
	}
	if d := l.Contract.Decreases; d != nil {
		before, err := l.headerEnv.tr(d.E)
		if err != nil {
			panic(unsupported{fmt.Sprintf("loop %d decreases: %v", l.Ordinal, err)})
		}
		after, err := env.tr(d.E)
		if err != nil {
			panic(unsupported{fmt.Sprintf("loop %d decreases: %v", l.Ordinal, err)})
		}
		vc.oblige("loop", fmt.Sprintf("loop%d.decreases%s", l.Ordinal, suffix), edge, and(app(">=", before.t, zeroLike(before)), app("<", after.t, before.t)), l.MinPos, d.Text)
	}
}

// frameFact: every object that existed at function entry has its entry value in component c of state m.
func (vc *FnVC) frameFact(c string, m *Mem) Term {
	a, b := vc.mem0.get(c), m.get(c)
	if a == b {
		return "true"
	}
	return fmt.Sprintf("(forall ((r! Int)) (! (=> (and (<= 0 r!) (< r! %s)) (= (select %s r!) (select %s r!))) :pattern ((select %s r!))))", vc.mem0.get(nextComp), b, a, b)
}

func zeroLike(tv TV) Term {
	if b, ok := tv.ty.Underlying().(*types.Basic); ok && b.Info()&types.IsFloat != 0 {
		return "0.0"
	}
	return "0"
}

func (vc *FnVC) applyGhost(env *Env, g GhostUpdate, m *Mem) *Mem {
	v, err := env.tr(g.Value)
	if err != nil {
		if vc.lenient {
			// salvage mode: the ghost keeps an arbitrary value from here on
			vc.skipped = append(vc.skipped, fmt.Sprintf("ghost update %q: %v", g.Text, err))
			return m.havoc(map[string]bool{"G$" + ghostTargetName(g.Target): true}, nil)
		}
		panic(unsupported{fmt.Sprintf("ghost update %q: %v", g.Text, err)})
	}
	switch t := g.Target.(type) {
	case *EIdent:
		return m.update("G$"+t.Name, v.t)
	case *EIndex:
		id, ok := t.X.(*EIdent)
		if !ok {
			panic(unsupported{"ghost update target must be x or x[i]"})
		}
		i, err := env.tr(t.I)
		if err != nil {
			panic(unsupported{fmt.Sprintf("ghost update %q: %v", g.Text, err)})
		}
		return m.update("G$"+id.Name, app("store", m.get("G$"+id.Name), i.t, v.t))
	}
	panic(unsupported{"ghost update target must be x or x[i]"})
}

// pureSort: the SMT sort of a ghost (mathematical) value of Go-like type ty.
func (vc *FnVC) pureSort(ty types.Type) string {
	switch u := ty.Underlying().(type) {
	case *types.Map:
		return "(Array " + vc.pureSort(u.Key()) + " " + vc.pureSort(u.Elem()) + ")"
	}
	return vc.e.sortOf(ty)
}
