package main

// govc check Cxx: regenerate every obligation of a property from /repo's working tree,
// discharge them, run bounded stand-ins, handle known findings, replay failures, write evidence.

import (
	"bufio"
	"encoding/json"
	"flag"
	"fmt"
	"go/types"
	"os"
	"os/exec"
	"path/filepath"
	"regexp"
	"sort"
	"strconv"
	"strings"
	"time"
)

const verifRoot = "/verif"

type FuncClaim struct {
	Pkg       string   `json:"pkg"`
	Name      string   `json:"name"`
	Skip      []string `json:"skip,omitempty"`       // obligation-name substrings not claimed (reason in Note)
	Only      []string `json:"only,omitempty"`       // if set: only obligation names containing one of these
	Sweep     bool     `json:"sweep,omitempty"`      // zero-annotation safety sweep: no contract needed
	Replay    string   `json:"replay,omitempty"`     // in-package test that replays a model (VERIF_INPUT)
	Search    string   `json:"search,omitempty"`     // in-package test that searches a small scope for a failing input
	SearchPkg string   `json:"search_pkg,omitempty"` // package the search test lives in, if not the function's own
	Note      string   `json:"note,omitempty"`
}

func (fc FuncClaim) searchPkg() string {
	if fc.SearchPkg != "" {
		return fc.SearchPkg
	}
	return fc.Pkg
}

type BoundedSpec struct {
	Pkg      string `json:"pkg"`
	Test     string `json:"test"`
	Bound    string `json:"bound"`
	Thorough string `json:"thorough_bound,omitempty"`
	What     string `json:"what"`
}

type LocksetSpec struct {
	Pkg      string `json:"pkg"`
	RaceTest string `json:"race_test,omitempty"` // in-package test run with -race when a lockset obligation of the package fails
}

type StructSpec struct {
	Pkg    string            `json:"pkg"`
	Kind   string            `json:"kind"`
	Func   string            `json:"func,omitempty"`
	Arg    string            `json:"arg,omitempty"`
	Arg2   string            `json:"arg2,omitempty"`
	Sinks  []string          `json:"sinks,omitempty"`
	Exempt map[string]string `json:"exempt,omitempty"`
	What   string            `json:"what"`
}

type PropConfig struct {
	ID          string        `json:"id"`
	Level       string        `json:"level"`
	Functions   []FuncClaim   `json:"functions"`
	Lemmas      []string      `json:"lemmas,omitempty"` // "pkg:name"
	Bounded     []BoundedSpec `json:"bounded,omitempty"`
	Locksets    []LocksetSpec `json:"locksets,omitempty"`
	Structural  []StructSpec  `json:"structural,omitempty"`
	Assumptions []string      `json:"assumptions"`
	NotDecided  []string      `json:"not_decided,omitempty"`
}

type Finding struct {
	Kind, Property, Obligation, Witness, Text string
}

func loadFindings() []Finding {
	var out []Finding
	f, err := os.Open(filepath.Join(verifRoot, "known_findings.txt"))
	if err != nil {
		return nil
	}
	defer f.Close()
	sc := bufio.NewScanner(f)
	for sc.Scan() {
		l := strings.TrimSpace(sc.Text())
		if l == "" || strings.HasPrefix(l, "#") {
			continue
		}
		kind := ""
		switch {
		case strings.HasPrefix(l, "known:"):
			kind = "known"
		case strings.HasPrefix(l, "fixed:"):
			kind = "fixed"
		default:
			continue
		}
		fd := Finding{Kind: kind, Text: l}
		for _, w := range strings.Fields(l) {
			if strings.HasPrefix(w, "property=") {
				fd.Property = w[9:]
			}
			if strings.HasPrefix(w, "obligation=") {
				fd.Obligation = w[11:]
			}
			if strings.HasPrefix(w, "witness=") {
				fd.Witness = w[8:]
			}
		}
		out = append(out, fd)
	}
	return out
}

// knownText: the finding's line without the "known:" marker and the property field (printed separately)
func knownText(fd Finding, id string) string {
	t := strings.TrimSpace(strings.TrimPrefix(fd.Text, "known:"))
	return strings.TrimSpace(strings.TrimPrefix(t, "property="+id))
}

type oblResult struct {
	O *Obligation
	R SolveResult
}

type checkRun struct {
	cfg        *PropConfig
	tier       string
	seed       int
	w          *World
	outDir     string
	replayDir  string
	timeout    time.Duration
	results    []oblResult
	funcs      []string
	trusted    map[string]bool
	assump     map[string]bool
	violations []string
	known      []string
	bounded    []map[string]interface{}
	evals      int
	distinct   int
	notes      []string
	downgraded []string
	undecided  []string        // functions whose contract could not be bound at all and that have no search test
	lenient    map[string]bool // functions translated with some call-site clauses skipped
	partial    map[string]bool // functions whose contract could not be bound (decided by search or undecided)
	raceOut    map[string]string
}

func baseName(n string) string {
	re := regexp.MustCompile(`\.(ret|e)\d+$`)
	return re.ReplaceAllString(n, "")
}

func cmdCheck(args []string) int {
	fs := flag.NewFlagSet("check", flag.ExitOnError)
	tier := fs.String("tier", "", "quick|thorough")
	update := fs.Bool("update-expected", false, "rewrite props/<id>.expected from the current tree")
	verbose := fs.Bool("v", false, "print every obligation")
	var id string
	if len(args) > 0 && !strings.HasPrefix(args[0], "-") {
		id = args[0]
		args = args[1:]
	}
	fs.Parse(args)
	if id == "" && fs.NArg() > 0 {
		id = fs.Arg(0)
	}
	if *tier == "" {
		*tier = os.Getenv("VERIF_TIER")
	}
	if *tier != "thorough" {
		*tier = "quick"
	}
	seed, _ := strconv.Atoi(os.Getenv("VERIF_SEED"))
	start := time.Now()

	cfgData, err := os.ReadFile(filepath.Join(verifRoot, "props", id+".json"))
	if err != nil {
		fmt.Fprintln(os.Stderr, "no such property config:", err)
		return 2
	}
	cfg := &PropConfig{}
	if err := json.Unmarshal(cfgData, cfg); err != nil {
		fmt.Fprintln(os.Stderr, "bad config:", err)
		return 2
	}
	run := &checkRun{cfg: cfg, tier: *tier, seed: seed, trusted: map[string]bool{}, assump: map[string]bool{}, lenient: map[string]bool{}, partial: map[string]bool{},
		outDir: filepath.Join(verifRoot, "out", id), replayDir: filepath.Join(verifRoot, "replays", id)}
	run.timeout = 10 * time.Second
	if *tier == "thorough" {
		run.timeout = 60 * time.Second
	}
	os.RemoveAll(run.outDir)
	os.MkdirAll(run.outDir, 0o755)

	// load packages
	pkgSet := map[string]bool{}
	for _, f := range cfg.Functions {
		pkgSet[f.Pkg] = true
	}
	for _, l := range cfg.Locksets {
		pkgSet[l.Pkg] = true
	}
	for _, l := range cfg.Structural {
		pkgSet[l.Pkg] = true
	}
	for _, l := range cfg.Lemmas {
		pkgSet[strings.SplitN(l, ":", 2)[0]] = true
	}
	var patterns []string
	for p := range pkgSet {
		patterns = append(patterns, modPath+"/"+p)
	}
	sort.Strings(patterns)
	var w *World
	if len(patterns) > 0 {
		w, err = loadWorld(patterns)
		if err != nil {
			// the tree does not build/type-check: nothing can be shown
			fmt.Fprintln(os.Stderr, "load error:", err)
			run.fail("load", "/repo does not load: "+err.Error(), nil, "")
			run.finish(start)
			return 1
		}
		run.w = w
		for _, ce := range contractErrors {
			run.fail("contracts", "contract file does not parse: "+ce, nil, "")
		}
	}

	// generate obligations
	var obls []*Obligation
	missing := []string{}
	for _, fc := range cfg.Functions {
		fn := w.findFunc(modPath+"/"+fc.Pkg, fc.Name)
		qn := filepath.Base(fc.Pkg) + "." + fc.Name
		if fn == nil {
			missing = append(missing, qn+" (function not found)")
			run.shapeMismatch(fc, qn, "function not found in package")
			continue
		}
		vc := newFnVC(w, fn, "full")
		if vc.ct == nil && !fc.Sweep {
			run.shapeMismatch(fc, qn, "no contract bound")
			continue
		}
		if err := vc.translate(); err != nil {
			// The contract no longer binds as a whole. Call-site clauses are individually skippable: re-translate leniently
			// (clauses naming a site or an identifier that no longer exists are dropped and reported as undecided); everything
			// that still binds is checked as usual, so a change that breaks the property still fails a named obligation,
			// while a harmless rename only loses the clauses that mention the old name. If even that fails (a loop
			// invariant, a pre- or postcondition does not bind; the function left the subset), nothing can be decided
			// deductively: the function's search test decides if it has one, otherwise the function is reported UNDECIDED.
			vc2 := newFnVC(w, fn, "full")
			vc2.lenient = true
			if err2 := vc2.translate(); err2 != nil {
				run.shapeMismatch(fc, qn, err.Error())
				continue
			}
			fmt.Printf("UNDECIDED %s: %s (%d call-site clause(s) skipped)\n", qn, err.Error(), len(vc2.skipped))
			run.downgraded = append(run.downgraded, fmt.Sprintf("%s: contract binds only in part (%s); skipped as undecided: %s", qn, err.Error(), strings.Join(vc2.skipped, "; ")))
			run.lenient[qn] = true
			if fc.Search != "" {
				out, failing, _ := run.goTest(fc.searchPkg(), fc.Search, "", 0)
				if failing != "" && run.onlyKnownFailures(fc.Search, out) == nil {
					path := run.writeReplay(qn+"/shape", map[string]interface{}{"obligation": qn + "/shape", "reason": err.Error(), "search_test": fc.Search, "failing_input": json.RawMessage(failing), "test_output": tail(out, 4000), "confirmed": true})
					run.violation(path, "")
				}
			}
			vc = vc2
		}
		// every contracted loop must exist
		for n := range contractLoops(vc.ct) {
			if n > len(vc.loops) {
				run.shapeMismatch(fc, qn, fmt.Sprintf("contract names loop %d but the function has %d loops", n, len(vc.loops)))
			}
		}
		run.funcs = append(run.funcs, qn)
		for t := range vc.trustedUsed {
			run.trusted[t] = true
		}
		for a := range vc.e.assumption {
			run.assump[a] = true
		}
		for _, wn := range vc.warnings {
			run.notes = append(run.notes, qn+": "+wn)
		}
		for _, o := range vc.obls {
			if !claimed(fc, o) {
				continue
			}
			obls = append(obls, o)
		}
		if vc.ct != nil && vc.ct.Trusted {
			run.trusted["contract of "+qn+" is marked trusted"] = true
		}
	}
	// lemmas
	for _, l := range cfg.Lemmas {
		parts := strings.SplitN(l, ":", 2)
		os2, err := lemmaObligations(w, parts[0], parts[1])
		if err != nil {
			run.fail("lemma", fmt.Sprintf("lemma %s cannot be generated: %v", l, err), nil, "")
			continue
		}
		obls = append(obls, os2...)
	}
	// lockset and structural obligations
	for _, l := range cfg.Locksets {
		obls = append(obls, locksetObligations(w, l.Pkg, run)...)
	}
	for _, s := range cfg.Structural {
		obls = append(obls, structuralObligations(w, s, run)...)
	}

	// expected names (vacuity / shape)
	expPath := filepath.Join(verifRoot, "props", id+".expected")
	gen := map[string]bool{}
	for _, o := range obls {
		if o.Kind != "safety" && o.Kind != "cover" && o.Kind != "dataflow" {
			gen[baseName(o.Name)] = true
		}
	}
	if *update {
		var names []string
		for n := range gen {
			names = append(names, n)
		}
		sort.Strings(names)
		os.WriteFile(expPath, []byte(strings.Join(names, "\n")+"\n"), 0o644)
		fmt.Printf("wrote %d expected obligation names to %s\n", len(names), expPath)
	} else if data, err := os.ReadFile(expPath); err == nil {
		for _, n := range strings.Fields(string(data)) {
			if !gen[n] {
				fnName := n
				if i := strings.Index(n, "/"); i >= 0 {
					fnName = n[:i]
				}
				// a clause that no longer binds is undecided, not violated (see the lenient path above); VERIF_STRICT=1
				// (used by tools/runall.sh on the unchanged tree) turns every vanished name into a failure, which is how
				// vacuity regressions of the machinery itself are caught.
				if os.Getenv("VERIF_STRICT") == "" {
					if !run.lenient[fnName] && !run.partial[fnName] {
						fmt.Printf("UNDECIDED %s: obligation is no longer generated (the clause, loop or call site it belongs to vanished)\n", n)
						run.downgraded = append(run.downgraded, n+": no longer generated; undecided")
					}
					continue
				}
				run.fail(n, "obligation "+n+" is no longer generated (contracted clause, loop or function vanished)", nil, "")
			}
		}
	}

	// discharge
	results := solveAll(obls, run.outDir, run.timeout, *tier == "thorough")
	findings := loadFindings()
	for i, o := range obls {
		r := results[i]
		run.results = append(run.results, oblResult{o, r})
		ok := (!o.ExpectSat && r.Status == "unsat") || (o.ExpectSat && r.Status != "unsat")
		if o.Kind == "dataflow" {
			ok = r.Status == "unsat"
		}
		if *verbose || !ok {
			fmt.Printf("%-5s %-64s %-8s %-10s %.2fs %s\n", map[bool]string{true: "ok", false: "FAIL"}[ok], o.Name, r.Status, r.Solver, r.Time, trunc(o.Text, 60))
		}
		if ok {
			continue
		}
		// known finding?
		matched := false
		for _, fd := range findings {
			if fd.Kind == "known" && fd.Property == cfg.ID && fd.Obligation == baseName(o.Name) {
				matched = true
				line := fmt.Sprintf("KNOWN-FINDING: property=%s %s", cfg.ID, knownText(fd, cfg.ID))
				dup := false
				for _, k := range run.known {
					if k == line {
						dup = true
					}
				}
				if !dup {
					run.known = append(run.known, line)
					fmt.Println(line)
				}
			}
		}
		if matched {
			continue
		}
		if o.ExpectSat {
			run.fail(o.Name, "vacuity: "+o.Text+" is unsatisfiable (contradictory precondition or unreachable return)", o, r.Output)
			continue
		}
		if o.vc != nil && len(o.vc.staleCallees) > 0 {
			// the proof of this obligation leans on a callee contract that no longer binds to its function: undecided
			fmt.Printf("UNDECIDED %s: not discharged, but the contract of a callee is stale: %s\n", o.Name, strings.Join(o.vc.staleCallees, "; "))
			run.downgraded = append(run.downgraded, fmt.Sprintf("%s: not discharged; callee contract stale (%s)", o.Name, strings.Join(o.vc.staleCallees, "; ")))
			continue
		}
		run.failObligation(o, r)
	}

	// bounded stand-ins
	for _, b := range cfg.Bounded {
		run.runBounded(b)
	}
	return run.finish(start)
}

func contractLoops(ct *FuncContract) map[int]*LoopContract {
	if ct == nil {
		return nil
	}
	return ct.Loops
}

func claimed(fc FuncClaim, o *Obligation) bool {
	for _, s := range fc.Skip {
		if strings.Contains(o.Name, s) {
			return false
		}
	}
	if len(fc.Only) > 0 {
		for _, s := range fc.Only {
			if strings.Contains(o.Name, s) {
				return true
			}
		}
		// what the selected obligations are proved FROM must be proved too: a loop invariant that fails to establish, or a
		// callee precondition that does not hold, would otherwise be assumed unchecked and make the selected ones vacuous
		// (this is how a seeded change in resolveUnionBatch slipped through an `only: [assert@...]` claim)
		return o.Kind == "cover" || o.Kind == "loop" || o.Kind == "requires"
	}
	return true
}

func (run *checkRun) funcClaim(o *Obligation) *FuncClaim {
	if o == nil {
		return nil
	}
	for i := range run.cfg.Functions {
		fc := &run.cfg.Functions[i]
		if filepath.Base(fc.Pkg)+"."+fc.Name == o.Func {
			return fc
		}
	}
	return nil
}

// shapeMismatch: the contract cannot be bound / the function left the subset. Decided by the bounded search if there is one.
func (run *checkRun) shapeMismatch(fc FuncClaim, qn, why string) {
	fmt.Printf("SHAPE %s: %s\n", qn, why)
	if run.partial != nil {
		run.partial[qn] = true
	}
	if fc.Search != "" {
		out, failing, _ := run.goTest(fc.searchPkg(), fc.Search, "", 0)
		if failing != "" && run.onlyKnownFailures(fc.Search, out) == nil {
			path := run.writeReplay(qn+"/shape", map[string]interface{}{"obligation": qn + "/shape", "reason": why, "search_test": fc.Search, "failing_input": json.RawMessage(failing), "test_output": tail(out, 4000), "confirmed": true})
			run.violation(path, "")
			return
		}
		run.downgraded = append(run.downgraded, fmt.Sprintf("%s: %s; decided by bounded search %s (clean)", qn, why, fc.Search))
		return
	}
	// no harness can decide it either: the function is undecided (reported in the evidence, never as a violation - a rename
	// or a restructuring that keeps the behaviour must not raise an alarm)
	fmt.Printf("UNDECIDED %s: %s (no search test)\n", qn, why)
	run.downgraded = append(run.downgraded, fmt.Sprintf("%s: %s; undecided (no search test)", qn, why))
	run.undecided = append(run.undecided, qn)
}

func (run *checkRun) violation(path, suffix string) {
	line := fmt.Sprintf("VIOLATION property=%s replay=%s", run.cfg.ID, path)
	if suffix != "" {
		line += " " + suffix
	}
	fmt.Println(line)
	run.violations = append(run.violations, line)
}

// fail: a violation without a replayable input.
func (run *checkRun) fail(name, reason string, o *Obligation, solverOut string) {
	rec := map[string]interface{}{"obligation": name, "reason": reason, "solver_output": trunc(solverOut, 4000), "confirmed": false}
	if o != nil {
		rec["clause"] = o.Text
		rec["position"] = o.Pos.String()
	}
	path := run.writeReplay(name, rec)
	run.violation(path, "obligation="+name+" no-failing-input-found")
}

func (run *checkRun) writeReplay(name string, rec map[string]interface{}) string {
	os.MkdirAll(run.replayDir, 0o755)
	rec["property"] = run.cfg.ID
	path := filepath.Join(run.replayDir, fileSafe(name)+".json")
	data, _ := json.MarshalIndent(rec, "", " ")
	os.WriteFile(path, data, 0o644)
	return path
}

// failObligation: model -> replay on the real code -> bounded search -> report.
func (run *checkRun) failObligation(o *Obligation, r SolveResult) {
	if strings.Contains(o.Name, "/lockset#") {
		run.failLockset(o, r)
		return
	}
	fc := run.funcClaim(o)
	rec := map[string]interface{}{"obligation": o.Name, "clause": o.Text, "position": o.Pos.String(), "solver": r.Solver, "solver_status": r.Status,
		"solver_output": trunc(r.Output, 2000), "smt2": r.File, "confirmed": false}
	if fc != nil && fc.Replay != "" && r.Status == "sat" && o.vc != nil {
		inputs, err := extractInputs(o, run.timeout)
		if err != nil {
			rec["model_error"] = err.Error()
		} else {
			rec["model_inputs"] = inputs
			inPath := filepath.Join(run.replayDir, fileSafe(o.Name)+".input.json")
			os.MkdirAll(run.replayDir, 0o755)
			data, _ := json.MarshalIndent(inputs, "", " ")
			os.WriteFile(inPath, data, 0o644)
			out, _, confirmed := run.goTest(fc.Pkg, fc.Replay, inPath, 0)
			rec["replay_test"] = fc.Replay
			rec["replay_input_file"] = inPath
			rec["replay_output"] = tail(out, 3000)
			rec["replay_cmd"] = run.goTestCmd(fc.Pkg, fc.Replay, inPath)
			if confirmed {
				rec["confirmed"] = true
				path := run.writeReplay(o.Name, rec)
				run.violation(path, "obligation="+o.Name)
				return
			}
		}
	}
	if fc != nil && fc.Search != "" {
		out, failing, _ := run.goTest(fc.searchPkg(), fc.Search, "", 0)
		rec["search_test"] = fc.Search
		rec["search_output"] = tail(out, 3000)
		if failing != "" && run.onlyKnownFailures(fc.Search, out) != nil {
			// the harness only reports the witness of a known finding: that input fails on the unchanged tree too and
			// says nothing about this obligation
			rec["search_note"] = "the search harness reports only the witness of a recorded known finding; not counted as a failing input for this obligation"
			failing = ""
		}
		if failing != "" {
			rec["failing_input"] = json.RawMessage(failing)
			rec["confirmed"] = true
			rec["replay_cmd"] = run.goTestCmd(fc.searchPkg(), fc.Search, "")
			path := run.writeReplay(o.Name, rec)
			run.violation(path, "obligation="+o.Name)
			return
		}
	}
	path := run.writeReplay(o.Name, rec)
	run.violation(path, "obligation="+o.Name+" no-failing-input-found")
}

// failLockset: a lockset obligation failed; the package's race test (run with the race detector) is the replay.
func (run *checkRun) failLockset(o *Obligation, r SolveResult) {
	rec := map[string]interface{}{"obligation": o.Name, "clause": o.Text, "position": o.Pos.String(), "back_end": "dataflow (must-hold lockset over go/ssa)", "confirmed": false}
	pkgBase := strings.SplitN(o.Name, ".", 2)[0]
	for _, ls := range run.cfg.Locksets {
		if filepath.Base(ls.Pkg) != pkgBase || ls.RaceTest == "" {
			continue
		}
		if run.raceOut == nil {
			run.raceOut = map[string]string{}
		}
		out, done := run.raceOut[ls.Pkg]
		if !done {
			out, _, _ = run.goTestFlags(ls.Pkg, ls.RaceTest, "", 0, []string{"-race"})
			run.raceOut[ls.Pkg] = out
		}
		rec["replay_test"] = ls.RaceTest + " (go test -race)"
		rec["replay_output"] = tail(out, 4000)
		rec["replay_cmd"] = run.goTestCmd(ls.Pkg, ls.RaceTest, "") + " -race"
		// the race report must name the function whose access is unguarded
		fn := o.Func[strings.Index(o.Func, ".")+1:]
		short := fn
		if i := strings.LastIndex(short, "."); i >= 0 {
			short = short[i+1:]
		}
		if (strings.Contains(out, "DATA RACE") || strings.Contains(out, "concurrent map")) && strings.Contains(out, short) {
			rec["confirmed"] = true
			path := run.writeReplay(o.Name, rec)
			run.violation(path, "obligation="+o.Name)
			return
		}
	}
	path := run.writeReplay(o.Name, rec)
	run.violation(path, "obligation="+o.Name+" no-failing-input-found")
}

func tail(s string, n int) string {
	if len(s) > n {
		return "..." + s[len(s)-n:]
	}
	return s
}

// overlay: every file under /verif/oracles/<pkg>/ is injected into the package as a test file.
func (run *checkRun) overlayFor(pkg string) (string, error) {
	dir := filepath.Join(verifRoot, "oracles", pkg)
	ents, err := os.ReadDir(dir)
	if err != nil {
		return "", err
	}
	repl := map[string]string{}
	for _, e := range ents {
		if strings.HasSuffix(e.Name(), ".go") {
			repl[filepath.Join(repoRoot, pkg, "zz_verif_"+e.Name())] = filepath.Join(dir, e.Name())
		}
	}
	data, _ := json.Marshal(map[string]interface{}{"Replace": repl})
	os.MkdirAll(run.outDir, 0o755)
	path := filepath.Join(run.outDir, "overlay_"+fileSafe(pkg)+".json")
	return path, os.WriteFile(path, data, 0o644)
}

func (run *checkRun) goTestCmd(pkg, test, input string) string {
	return fmt.Sprintf("cd /repo && VERIF_INPUT=%s VERIF_TIER=%s VERIF_SEED=%d go test -tags verif -overlay <oracles of %s> -vet=off -count=1 -timeout 300s -run '^%s$' ./%s/", input, run.tier, run.seed, pkg, test, pkg)
}

// goTest runs one in-package test with the oracle files overlaid. It returns the output, the first failing input (JSON) if the
// test printed one, and whether a replay was confirmed.
func (run *checkRun) goTest(pkg, test, input string, timeout time.Duration) (string, string, bool) {
	return run.goTestFlags(pkg, test, input, timeout, nil)
}

func (run *checkRun) goTestFlags(pkg, test, input string, timeout time.Duration, flags []string) (string, string, bool) {
	ov, err := run.overlayFor(pkg)
	if err != nil {
		return "no oracle directory for " + pkg + ": " + err.Error(), "", false
	}
	if timeout == 0 {
		timeout = 300 * time.Second
		if run.tier == "thorough" {
			timeout = 1500 * time.Second
		}
	}
	argv := append([]string{"test", "-tags", "verif", "-overlay", ov, "-vet=off", "-count=1", "-timeout", fmt.Sprintf("%ds", int(timeout.Seconds())), "-run", "^" + test + "$", "-v"}, flags...)
	argv = append(argv, "./"+pkg+"/")
	cmd := exec.Command("go", argv...)
	cmd.Dir = repoRoot
	cmd.Env = append(os.Environ(), "GOFLAGS=-mod=mod", "GOPROXY=off", "GOSUMDB=off", "GOTOOLCHAIN=local", "VERIF_INPUT="+input, "VERIF_TIER="+run.tier, fmt.Sprintf("VERIF_SEED=%d", run.seed))
	outB, _ := cmd.CombinedOutput()
	out := string(outB)
	failing := ""
	confirmed := false
	for _, l := range strings.Split(out, "\n") {
		l = strings.TrimSpace(l)
		if i := strings.Index(l, "VERIF-FAIL-INPUT: "); i >= 0 && failing == "" {
			failing = l[i+len("VERIF-FAIL-INPUT: "):]
			if !json.Valid([]byte(failing)) {
				b, _ := json.Marshal(failing)
				failing = string(b)
			}
		}
		if strings.Contains(l, "VERIF-REPLAY: CONFIRMED") {
			confirmed = true
		}
	}
	return out, failing, confirmed
}

// onlyKnownFailures: the harness output reports failures, and every failure class it reports is the witness of a known
// finding recorded for this property and this harness.
func (run *checkRun) onlyKnownFailures(test, out string) *Finding {
	for _, fd := range loadFindings() {
		if fd.Kind == "known" && fd.Property == run.cfg.ID && fd.Obligation == "bounded:"+test {
			allKnown := true
			for _, l := range strings.Split(out, "\n") {
				if i := strings.Index(l, "VERIF-FAIL-CLASS: "); i >= 0 {
					if strings.TrimSpace(l[i+len("VERIF-FAIL-CLASS: "):]) != fd.Witness {
						allKnown = false
					}
				}
			}
			if allKnown && strings.Contains(out, "VERIF-FAIL-CLASS: ") {
				fd := fd
				return &fd
			}
		}
	}
	return nil
}

var boundedRe = regexp.MustCompile(`VERIF-BOUNDED: evaluations=(\d+) distinct=(\d+) failures=(\d+)`)

func (run *checkRun) runBounded(b BoundedSpec) {
	t0 := time.Now()
	out, failing, _ := run.goTest(b.Pkg, b.Test, "", 0)
	m := boundedRe.FindStringSubmatch(out)
	rec := map[string]interface{}{"test": b.Test, "pkg": b.Pkg, "what": b.What, "bound": b.Bound, "wall_s": time.Since(t0).Seconds(), "label": "bounded (never counted as proved)"}
	if run.tier == "thorough" && b.Thorough != "" {
		rec["bound"] = b.Thorough
	}
	sample := ""
	for _, l := range strings.Split(out, "\n") {
		if i := strings.Index(l, "VERIF-SAMPLE: "); i >= 0 && sample == "" {
			sample = strings.TrimSpace(l[i+len("VERIF-SAMPLE: "):])
		}
	}
	rec["sample"] = sample
	if m == nil {
		rec["error"] = tail(out, 2000)
		run.bounded = append(run.bounded, rec)
		path := run.writeReplay("bounded_"+b.Test, map[string]interface{}{"obligation": "bounded:" + b.Test, "reason": "bounded harness did not complete", "test_output": tail(out, 4000), "confirmed": false})
		run.violation(path, "obligation=bounded:"+b.Test+" no-failing-input-found")
		return
	}
	ev, _ := strconv.Atoi(m[1])
	di, _ := strconv.Atoi(m[2])
	fl, _ := strconv.Atoi(m[3])
	rec["evaluations"], rec["distinct_nontrivial"], rec["failures"] = ev, di, fl
	run.evals += ev
	run.distinct += di
	run.bounded = append(run.bounded, rec)
	if fl > 0 || failing != "" {
		// known finding by witness?
		if fd := run.onlyKnownFailures(b.Test, out); fd != nil {
			line := fmt.Sprintf("KNOWN-FINDING: property=%s %s", run.cfg.ID, knownText(*fd, run.cfg.ID))
			run.known = append(run.known, line)
			fmt.Println(line)
			return
		}
		var fi interface{} = failing
		if json.Valid([]byte(failing)) {
			fi = json.RawMessage(failing)
		}
		path := run.writeReplay("bounded_"+b.Test, map[string]interface{}{"obligation": "bounded:" + b.Test, "failing_input": fi, "test_output": tail(out, 4000),
			"replay_cmd": run.goTestCmd(b.Pkg, b.Test, ""), "confirmed": true})
		run.violation(path, "obligation=bounded:"+b.Test)
	}
}

func (run *checkRun) finish(start time.Time) int {
	cfg := run.cfg
	nObl, nDis := 0, 0
	bySolver := map[string]int{}
	solverTime := 0.0
	var samples []interface{}
	covers := map[string]int{}
	var failedNames []string
	knownObl := 0
	for _, rr := range run.results {
		o, r := rr.O, rr.R
		solverTime += r.Time
		if o.ExpectSat {
			covers[r.Status]++
			continue
		}
		isKnown := false
		if r.Status != "unsat" {
			for _, fd := range loadFindings() {
				if fd.Kind == "known" && fd.Property == cfg.ID && fd.Obligation == baseName(o.Name) {
					isKnown = true
				}
			}
		}
		if isKnown {
			knownObl++
			continue
		}
		nObl++
		if r.Status == "unsat" {
			nDis++
			bySolver[r.Solver]++
			if len(samples) < 6 && (o.Kind == "ensures" || o.Kind == "loop" || o.Kind == "lemma" || len(samples) < 2) {
				samples = append(samples, map[string]interface{}{"obligation": o.Name, "clause": trunc(o.Text, 160), "result": r.Status, "solver": r.Solver, "time_s": r.Time, "smt2": r.File})
			}
		} else {
			failedNames = append(failedNames, o.Name)
		}
	}
	level := cfg.Level
	if level == "" {
		level = "proof"
	}
	if len(run.downgraded) > 0 || nObl == 0 {
		level = "exploration"
	}
	cov := map[string]interface{}{
		"obligations": nObl, "discharged": nDis,
		"checker_cmd":               fmt.Sprintf("/verif/bin/govc check %s --tier %s  (go/ssa -> WP -> SMT; each query raced on z3 5.1.0, z3 4.8.12, cvc5 1.0.3; timeout %s)", cfg.ID, run.tier, run.timeout),
		"trusted_base":              append([]string{"go/packages+go/types+go/ssa (x/tools v0.29.0) and govc's SSA->SMT translation", "z3 5.1.0 / z3 4.8.12 / cvc5 1.0.3 (one unsat answer discharges an obligation)", "integers are mathematical (no overflow obligations generated)", "strings are an uninterpreted sort with distinct literals"}, sortedKeys(run.trusted)...),
		"functions_under_contract":  run.funcs,
		"discharged_by_backend":     bySolver,
		"solver_time_s":             round2(solverTime),
		"cover_checks":              covers,
		"undischarged":              failedNames,
		"known_finding_obligations": knownObl,
		"samples":                   samples,
		"bounded_standins":          run.bounded,
		"downgraded":                run.downgraded,
		"not_decided":               cfg.NotDecided,
		"notes":                     run.notes,
	}
	if run.evals > 0 {
		cov["evaluations"] = run.evals
		cov["distinct_nontrivial"] = run.distinct
		cov["rule"] = "bounded stand-ins only (see bounded_standins[].bound); a case is counted distinct by the harness' own canonical key and non-trivial when it exercises the function beyond the empty/identity input"
	}
	if len(samples) == 0 {
		cov["samples"] = []interface{}{"no obligation discharged in this run"}
	}
	if level == "exploration" && run.evals == 0 {
		cov["evaluations"], cov["distinct_nontrivial"], cov["rule"] = 1, 0, "no exploration performed"
	}
	assumptions := append([]string{}, cfg.Assumptions...)
	assumptions = append(assumptions, sortedKeys(run.assump)...)
	ev := map[string]interface{}{
		"property_id": cfg.ID, "tier": run.tier, "seed": run.seed, "level": level, "coverage": cov, "assumptions": assumptions,
		"wall_s": round2(time.Since(start).Seconds()), "violations": len(run.violations), "known_findings": run.known,
	}
	evDir := filepath.Join(verifRoot, "evidence")
	if os.Getenv("VERIF_SELFTEST") != "" {
		evDir = filepath.Join(verifRoot, "out", "selftest-evidence")
	}
	os.MkdirAll(evDir, 0o755)
	data, _ := json.MarshalIndent(ev, "", " ")
	os.WriteFile(filepath.Join(evDir, cfg.ID+".json"), data, 0o644)
	fmt.Printf("%s: %d/%d obligations discharged, %d violation(s), %d known finding(s), %d bounded evaluation(s), %.1fs\n", cfg.ID, nDis, nObl, len(run.violations), len(run.known), run.evals, time.Since(start).Seconds())
	if len(run.violations) > 0 {
		return 1
	}
	return 0
}

func round2(f float64) float64 { return float64(int(f*100)) / 100 }

// extractInputs re-solves the obligation in an interactive session and rebuilds the function's inputs.
func extractInputs(o *Obligation, timeout time.Duration) (map[string]interface{}, error) {
	vc := o.vc
	script := o.script(nil)
	script = strings.TrimSuffix(strings.TrimSpace(script), "(check-sat)")
	// prefer small counterexamples: bound the length of slice parameters first
	var s *session
	var status string
	var err error
	for _, bound := range []int{2, 4, 8, -1} {
		extra := ""
		if bound >= 0 {
			for _, p := range vc.fn.Params {
				if _, ok := p.Type().Underlying().(*types.Slice); ok {
					extra += fmt.Sprintf("(assert (<= (slen %s) %d))\n", vc.vals[p], bound)
				}
			}
			if extra == "" {
				continue
			}
		}
		s, status, err = startSession(script+"\n"+extra, timeout)
		if err != nil {
			return nil, err
		}
		if status == "sat" {
			break
		}
		s.close()
		s = nil
	}
	if s == nil {
		return nil, fmt.Errorf("interactive session answered %q", status)
	}
	defer s.close()
	x := newExtractor(s, vc, vc.mem0)
	params := map[string]interface{}{}
	for _, p := range vc.fn.Params {
		params[p.Name()] = x.value(vc.vals[p], p.Type(), 0)
	}
	out := map[string]interface{}{"function": vc.qualName(), "params": params}
	if len(x.errs) > 0 {
		out["extraction_errors"] = x.errs
	}
	return out, nil
}

func cmdReplay(args []string) int {
	if len(args) < 1 {
		fmt.Fprintln(os.Stderr, "usage: govc replay <replay.json>")
		return 2
	}
	data, err := os.ReadFile(args[0])
	if err != nil {
		fmt.Fprintln(os.Stderr, err)
		return 2
	}
	var rec map[string]interface{}
	json.Unmarshal(data, &rec)
	fmt.Printf("property %v obligation %v\n", rec["property"], rec["obligation"])
	cmdline, _ := rec["replay_cmd"].(string)
	if cmdline == "" {
		fmt.Println("no replayable input recorded (no-failing-input-found); solver output:")
		fmt.Println(rec["solver_output"])
		return 0
	}
	prop, _ := rec["property"].(string)
	run := &checkRun{cfg: &PropConfig{ID: prop}, tier: "quick", outDir: filepath.Join(verifRoot, "out", prop), replayDir: filepath.Join(verifRoot, "replays", prop)}
	re := regexp.MustCompile(`-run '\^(\w+)\$' \./(\S+)/`)
	m := re.FindStringSubmatch(cmdline)
	if m == nil {
		fmt.Println(cmdline)
		return 2
	}
	input, _ := rec["replay_input_file"].(string)
	out, failing, confirmed := run.goTest(m[2], m[1], input, 0)
	fmt.Println(tail(out, 3000))
	if confirmed || failing != "" {
		fmt.Println("replay: violation reproduced")
		return 1
	}
	fmt.Println("replay: not reproduced")
	return 0
}
