package main

import (
	"fmt"
	"go/token"
	"go/types"
	"regexp"
	"sort"
	"strings"

	"golang.org/x/tools/go/ssa"
)

// calleeShort: the name used to address a call site in contracts ("call NAME#k ghost ...").
func calleeShort(c *ssa.CallCommon) string {
	if c.IsInvoke() {
		return c.Method.Name()
	}
	switch f := c.Value.(type) {
	case *ssa.Function:
		return shortFuncName(f)
	case *ssa.Builtin:
		return f.Name()
	case *ssa.MakeClosure:
		return shortFuncName(f.Fn.(*ssa.Function))
	}
	return "dynamic"
}

func shortFuncName(f *ssa.Function) string {
	if f.Parent() != nil {
		// anonymous: parent$N
		name := f.Name()
		if i := strings.LastIndex(name, "$"); i >= 0 {
			return shortFuncName(f.Parent()) + name[i:]
		}
	}
	if recv := f.Signature.Recv(); recv != nil {
		t := recv.Type()
		if p, ok := t.(*types.Pointer); ok {
			t = p.Elem()
		}
		if n, ok := t.(*types.Named); ok {
			return n.Obj().Name() + "." + f.Name()
		}
	}
	return f.Name()
}

// pure library functions: no heap effect. Value: extra facts about the result.
var pureLib = map[string]string{
	"fmt.Errorf": "nonnil", "errors.New": "nonnil", "fmt.Sprintf": "", "fmt.Sprint": "", "fmt.Sprintln": "",
	"reflect.TypeOf": "", "reflect.ValueOf": "", "reflect.DeepEqual": "", "strconv.Itoa": "", "strconv.Atoi": "", "strconv.ParseInt": "", "strconv.ParseFloat": "",
	"strconv.FormatInt": "", "strconv.Quote": "", "bytes.Equal": "", "strings.Join": "", "strings.HasPrefix": "", "strings.HasSuffix": "",
	"strings.Contains": "", "strings.ToLower": "", "strings.ToUpper": "", "strings.Split": "", "strings.TrimSpace": "", "strings.Repeat": "",
	"(reflect.Value).Pointer": "", "(reflect.Value).Kind": "", "(reflect.Value).IsNil": "", "(reflect.Value).Len": "", "(reflect.Value).Interface": "",
	"(reflect.Value).IsValid": "", "(reflect.Value).MapIndex": "", "(reflect.Value).Int": "", "(reflect.Value).Uint": "", "(reflect.Value).Float": "", "(reflect.Value).String": "", "(reflect.Value).Elem": "", "(reflect.Value).Type": "", "(reflect.Value).FieldByName": "", "(reflect.Value).FieldByIndex": "", "(reflect.Value).Index": "",
	"(*reflect.rtype).Comparable": "", "(*reflect.rtype).Kind": "", "(*reflect.rtype).String": "", "(*reflect.rtype).Name": "", "(*reflect.rtype).Elem": "",
	"(*sync.Mutex).Lock": "", "(*sync.Mutex).Unlock": "", "(*sync.RWMutex).Lock": "", "(*sync.RWMutex).Unlock": "", "(*sync.RWMutex).RLock": "", "(*sync.RWMutex).RUnlock": "",
	"(*sync.WaitGroup).Add": "", "(*sync.WaitGroup).Done": "", "(*sync.WaitGroup).Wait": "",
	"time.Now": "", "time.Since": "", "(time.Time).Sub": "", "(time.Time).Add": "", "time.Sleep": "",
	"context.WithCancel": "", "context.WithValue": "", "context.Background": "", "(*net/http.Request).Context": "",
	"sort.Strings": "havoc:string", "math.MaxInt64": "", "math.Trunc": "trunc", "math.Abs": "abs",
	"github.com/samsarahq/go/oops.Wrapf": "nonnil-if-arg0", "github.com/samsarahq/go/oops.Errorf": "nonnil",
	"log.Println": "", "log.Printf": "",
	// writes confined to the buffer object itself, whose content no clause reads
	"(*bytes.Buffer).WriteString": "", "(*bytes.Buffer).WriteByte": "", "(*bytes.Buffer).String": "", "(*bytes.Buffer).Len": "",
	"(*strings.Builder).WriteString": "", "(*strings.Builder).WriteByte": "", "(*strings.Builder).String": "", "(*strings.Builder).Len": "",
}

// pure interface methods (by interface method full name)
var pureMethods = map[string]bool{
	"(error).Error": true, "(context.Context).Err": true, "(context.Context).Done": true, "(context.Context).Value": true,
	"(reflect.Type).Comparable": true, "(reflect.Type).Kind": true, "(reflect.Type).String": true, "(reflect.Type).Elem": true, "(reflect.Type).Name": true,
	"(fmt.Stringer).String": true,
	"(github.com/graphql-go/graphql/language/ast.Value).GetKind": true, "(github.com/graphql-go/graphql/language/ast.Node).GetKind": true,
}

func (vc *FnVC) callWrites(c ssa.CallInstruction) (map[string]bool, bool) {
	cc := c.Common()
	set := map[string]bool{}
	if b, ok := cc.Value.(*ssa.Builtin); ok {
		switch b.Name() {
		case "append":
			st := cc.Args[0].Type().Underlying().(*types.Slice)
			set[vc.e.arrComp(st.Elem())] = true
		case "copy":
			st := cc.Args[0].Type().Underlying().(*types.Slice)
			set[vc.e.arrComp(st.Elem())] = true
		case "delete":
			d, v, l := vc.e.mapComps(cc.Args[0].Type().Underlying().(*types.Map))
			set[d], set[v], set[l] = true, true, true
		}
		return set, false
	}
	if _, isGo := c.(*ssa.Go); isGo {
		return set, false
	}
	if _, isDefer := c.(*ssa.Defer); isDefer {
		return set, false // effect happens at rundefers
	}
	if fn, ok := cc.Value.(*ssa.Function); ok && fn.Pkg != nil && fn.Pkg.Pkg.Path() == "sort" && (fn.Name() == "Slice" || fn.Name() == "SliceStable") && len(cc.Args) > 0 {
		if mi, ok := cc.Args[0].(*ssa.MakeInterface); ok {
			if st, ok := mi.X.Type().Underlying().(*types.Slice); ok {
				set[vc.e.arrComp(st.Elem())] = true
				return set, false
			}
		}
	}
	callee, ct := vc.resolveCallee(cc)
	if ct != nil && ct.HasAssign {
		s, all := vc.w.assignSet(vc.e, calleePkg(callee, vc.fn), ct)
		// ghost updates attached to this call
		return s, all
	}
	if callee != nil {
		if _, ok := pureLib[callee.String()]; ok {
			return set, false
		}
	}
	if cc.IsInvoke() && pureMethods[cc.Method.FullName()] {
		return set, false
	}
	return set, true
}

func calleePkg(callee *ssa.Function, dflt *ssa.Function) *types.Package {
	if callee != nil && callee.Pkg != nil {
		return callee.Pkg.Pkg
	}
	return dflt.Pkg.Pkg
}

func (vc *FnVC) resolveCallee(cc *ssa.CallCommon) (*ssa.Function, *FuncContract) {
	var f *ssa.Function
	switch v := cc.Value.(type) {
	case *ssa.Function:
		f = v
	case *ssa.MakeClosure:
		f = v.Fn.(*ssa.Function)
	}
	if cc.IsInvoke() {
		// an interface method with a (trusted) contract: keyed Interface.method
		if n, ok := cc.Value.Type().(*types.Named); ok {
			if ct := vc.w.contractByName(n.Obj().Pkg(), n.Obj().Name()+"."+cc.Method.Name()); ct != nil {
				return nil, ct
			}
		}
		return nil, nil
	}
	if f == nil {
		return nil, nil
	}
	if ct := vc.w.contractFor(f); ct != nil {
		return f, ct
	}
	// trusted contracts for functions outside thunder live in the caller's contract file, keyed pkgname.Func
	if vc.cf != nil && f.Pkg != nil {
		if ct := vc.cf.Funcs[f.Pkg.Pkg.Name()+"."+shortFuncName(f)]; ct != nil && ct.Trusted {
			return f, ct
		}
	}
	return f, nil
}

// call translates a call instruction; val is the ssa.Value receiving the result (nil for defer/go).
func (vc *FnVC) call(c ssa.CallInstruction, val *ssa.Call) {
	cc := c.Common()
	if b, ok := cc.Value.(*ssa.Builtin); ok {
		vc.builtin(b, cc, val)
		return
	}
	if vc.atomicOp(cc, val) {
		return
	}
	if isSortSlice(cc) {
		// a named site like any other call ("Slice" / "SliceStable"): asserts before, ghost updates and rely assumptions after
		name := calleeShort(cc)
		ord := vc.siteOrdinal(c, name)
		vc.callOrd[name] = ord
		var args []TV
		for _, a := range cc.Args {
			args = append(args, TV{t: vc.val(a), ty: a.Type()})
		}
		vc.siteAsserts(name, ord, vc.cur, args, c.Pos())
		vc.sortSlice(cc)
		vc.cur = vc.applyCallGhostsX(name, args, nil, vc.cur, nil)
		vc.siteAssumes(name, ord, args, nil)
		return
	}
	sig := cc.Signature()
	nres := sig.Results().Len()
	name := calleeShort(cc)
	ord := vc.siteOrdinal(c, name)
	vc.callOrd[name] = ord
	callee, ct := vc.resolveCallee(cc)

	var args []TV
	if cc.IsInvoke() {
		args = append(args, TV{t: vc.val(cc.Value), ty: cc.Value.Type()})
	}
	for _, a := range cc.Args {
		args = append(args, TV{t: vc.val(a), ty: a.Type()})
	}

	pre := vc.cur
	vc.siteAsserts(name, ord, pre, args, c.Pos())
	calleeGhosts := map[string]TV{}
	// results
	results := make([]TV, nres)
	freshResults := func() {
		for i := 0; i < nres; i++ {
			rt := sig.Results().At(i).Type()
			t := vc.declare(fmt.Sprintf("%s$r%d", vc.e.fresh("call_"+sanitize(name)), i), vc.e.sortOf(rt))
			results[i] = TV{t: t, ty: rt}
		}
	}

	// the callee may panic after arbitrary partial effects: a possible entry state of the recover block
	if vc.fn.Recover != nil && val != nil {
		full := ""
		if callee != nil {
			full = callee.String()
		}
		_, lib := pureLib[full]
		if !lib && !(ct != nil && ct.Pure) {
			pm := pre.havoc(nil, vc.keepSet())
			if _, isClosure := cc.Value.(*ssa.MakeClosure); !isClosure {
				vc.protectCells(pre, pm)
			}
			vc.panicPoints = append(vc.panicPoints, panicPoint{lit: vc.b(), mem: pm})
		}
	}
	switch {
	case ct != nil:
		// callee contract: check requires, havoc frame, assume ensures
		vc.emit(fmt.Sprintf("; call %s#%d by contract", name, ord))
		penv := vc.newEnv(pre, pre)
		penv.useParams = false
		penv.cf = vc.w.contracts[ct.PkgPath()]
		penv.pkg = vc.w.typesPkg(ct.PkgPath())
		vc.bindParams(penv, callee, cc, ct, args)
		for i, r := range ct.Requires {
			tv, err := penv.tr(r.E)
			if err != nil {
				panic(unsupported{fmt.Sprintf("call %s requires#%d: %v", name, i+1, err)})
			}
			vc.oblige("requires", fmt.Sprintf("requires@%s#%d.%d", name, ord, i+1), vc.b(), tv.t, c.Pos(), r.Text)
			vc.assume(vc.b(), tv.t)
		}
		set, all := vc.w.assignSet(vc.e, penv.pkg, ct)
		set[nextComp] = true
		var post *Mem
		if all {
			post = pre.havoc(nil, vc.keepSetWithKeeps())
			if _, isClosure := cc.Value.(*ssa.MakeClosure); !isClosure {
				vc.protectCells(pre, post)
			}
		} else {
			post = pre.havoc(set, nil)
		}
		freshResults()
		qenv := vc.newEnv(post, pre)
		qenv.useParams = false
		qenv.cf, qenv.pkg = penv.cf, penv.pkg
		vc.bindParams(qenv, callee, cc, ct, args)
		for k, v := range penv.names {
			if strings.HasPrefix(k, "gp$") {
				qenv.names[k] = v
			}
		}
		vc.bindResults(qenv, sig, results)
		// callee ghost results: fresh values (existential witnesses established by the callee's proof)
		for _, g := range ct.Ghosts {
			ty, err := vc.w.resolveType(penv.pkg, g.Typ)
			if err != nil {
				panic(unsupported{err.Error()})
			}
			t := vc.declare(vc.e.fresh("ghost_"+g.Name), vc.pureSort(ty))
			qenv.names[g.Name] = TV{t: t, ty: ty, pure: true}
			calleeGhosts["callee_"+g.Name] = qenv.names[g.Name]
		}
		for i, r := range ct.Ensures {
			tv, err := qenv.tr(r.E)
			if err != nil {
				// a postcondition that mentions the callee's locals is not visible to callers: assume less
				vc.warn("call %s: ensures#%d not usable here (%v)", name, i+1, err)
				// a postcondition over the callee's own locals is simply not visible here; one that names something the callee
				// no longer has at all (a renamed parameter) means the callee's contract is stale: what this caller can
				// prove from it is undecided, not violated
				if m := unknownIdentRe.FindStringSubmatch(err.Error()); m != nil && callee != nil && !funcHasName(callee, m[1]) {
					vc.staleCallees = append(vc.staleCallees, fmt.Sprintf("%s (ensures#%d names %q, which %s no longer has)", name, i+1, m[1], name))
				}
				continue
			}
			vc.assume(vc.b(), tv.t)
		}
		// frame: objects that existed before the call and whose type is assignable keep their value unless listed;
		// components outside the assigns set are untouched by construction of `post`.
		vc.cur = post
		for i := range results {
			vc.assumeLoaded(results[i].t, results[i].ty)
		}
		if ct.Trusted {
			vc.trustedUsed[ct.Pkg+"."+ct.Name] = true
		}
	default:
		full := ""
		if callee != nil {
			full = callee.String()
		}
		facts, isPure := pureLib[full]
		mname := ""
		if cc.IsInvoke() {
			mname = cc.Method.FullName()
			if pureMethods[mname] {
				isPure = true
			}
		}
		if isPure {
			vc.trustedUsed["library: "+firstNonEmpty(full, mname)+" (no heap effect)"] = true
			vc.pureCall(firstNonEmpty(full, mname), args, results, sig)
			if facts == "trunc" && nres == 1 && len(args) == 1 {
				// math.Trunc over the reals (floats are modelled as mathematical reals): the integer part towards zero
				x := args[0].t
				vc.assume("true", app("=", results[0].t, app("ite", app(">=", x, "0.0"), app("to_real", app("to_int", x)), app("-", app("to_real", app("to_int", app("-", x)))))))
				// a consequence the solvers do not find by themselves in mixed integer / real goals: x is its own integer part
				// exactly when it is a whole number
				vc.assume("true", app("=", app("=", x, results[0].t), app("is_int", x)))
			}
			if facts == "abs" && nres == 1 && len(args) == 1 {
				x := args[0].t
				vc.assume("true", app("=", results[0].t, app("ite", app(">=", x, "0.0"), x, app("-", x))))
			}
			if facts == "nonnil" && nres > 0 {
				vc.assume("true", not(app("=", results[nres-1].t, "anil")))
			}
			if facts == "nonnil-if-arg0" && nres > 0 && len(args) > 0 {
				vc.assume("true", app("=", app("=", results[nres-1].t, "anil"), app("=", args[0].t, "anil")))
			}
		} else {
			vc.emit(fmt.Sprintf("; call %s#%d: no contract, havoc", name, ord))
			vc.cur = pre.havoc(nil, vc.keepSetWithKeeps())
			if _, isClosure := cc.Value.(*ssa.MakeClosure); !isClosure {
				vc.protectCells(pre, vc.cur)
			}
			freshResults()
			if callee != nil || cc.IsInvoke() {
				vc.trustedUsed["havoc: "+firstNonEmpty(full, name)+" (no contract; results and heap arbitrary)"] = true
			}
		}
		for i := range results {
			vc.assumeWF(results[i].t, results[i].ty, vc.cur)
		}
	}
	if val != nil {
		vc.lockHavoc(val)
	}
	vc.lastCalleeGhosts = calleeGhosts
	vc.cur = vc.applyCallGhostsX(name, args, results, vc.cur, calleeGhosts)
	vc.siteAssumes(name, ord, args, results)
	if val != nil {
		switch nres {
		case 0:
		case 1:
			vc.vals[val] = results[0].t
		default:
			ts := make([]Term, nres)
			for i := range results {
				ts[i] = results[i].t
			}
			vc.tuples[val] = ts
		}
	}
}

// siteAsserts: call-site assertions of the caller's contract ("call NAME[#k] assert E"), checked before the call.
func (vc *FnVC) siteAsserts(name string, ord int, pre *Mem, args []TV, pos token.Pos) {
	if vc.ct == nil {
		return
	}
	for _, nc := range vc.ct.NoCall {
		if nc == name {
			vc.oblige("assert", fmt.Sprintf("nocall@%s#%d", name, ord), vc.b(), "false", pos, "no reachable "+name+" in this function")
		}
	}
	total := 0
	for _, ca := range vc.ct.CallAssert {
		if ca.Callee == name && (ca.Ordinal == 0 || ca.Ordinal == ord) {
			total++
		}
	}
	j := 0
	for _, ca := range vc.ct.CallAssert {
		if ca.Callee != name || (ca.Ordinal != 0 && ca.Ordinal != ord) {
			continue
		}
		j++
		vc.matchedSites["assert "+ca.Callee] = true
		vc.matchedSites[fmt.Sprintf("assert %s#%d", ca.Callee, ca.Ordinal)] = true
		env := vc.newEnv(pre, vc.mem0)
		env.resolve = vc.blockResolver(vc.curBlock, pre)
		for i, a := range args {
			env.names[fmt.Sprintf("arg%d", i)] = a
		}
		tv, err := env.tr(ca.C.E)
		if err != nil {
			if vc.lenient {
				vc.skipped = append(vc.skipped, fmt.Sprintf("call %s assert: %v", name, err))
				continue
			}
			panic(unsupported{fmt.Sprintf("call %s assert: %v", name, err)})
		}
		oname := fmt.Sprintf("assert@%s#%d", name, ord)
		if total > 1 {
			oname = fmt.Sprintf("assert@%s#%d.%d", name, ord, j)
		}
		vc.oblige("assert", oname, vc.b(), tv.t, pos, ca.C.Text)
		vc.assume(vc.b(), tv.t)
	}
}

// siteAssumes: "call NAME[#k] assume E" - a rely condition about what the (opaque) callee and concurrently running
// operations may have done; trusted, listed in the evidence.
func (vc *FnVC) siteAssumes(name string, ord int, args, results []TV) {
	if vc.ct == nil {
		return
	}
	for _, ca := range vc.ct.CallAssume {
		if ca.Callee != name || (ca.Ordinal != 0 && ca.Ordinal != ord) {
			continue
		}
		vc.matchedSites["assume "+ca.Callee] = true
		env := vc.newEnv(vc.cur, vc.mem0)
		env.resolve = vc.blockResolver(vc.curBlock, vc.cur)
		for i, a := range args {
			env.names[fmt.Sprintf("arg%d", i)] = a
		}
		for i, r := range results {
			env.names[fmt.Sprintf("ret%d", i)] = r
		}
		tv, err := env.tr(ca.C.E)
		if err != nil {
			if vc.lenient {
				vc.skipped = append(vc.skipped, fmt.Sprintf("call %s assume: %v", name, err))
				continue
			}
			panic(unsupported{fmt.Sprintf("call %s assume: %v", name, err)})
		}
		vc.assume(vc.b(), tv.t)
		vc.trustedUsed[fmt.Sprintf("rely at call %s in %s: %s", name, vc.qualName(), ca.C.Text)] = true
	}
}

// mapSite: map updates and deletes on a map loaded from a struct field are addressable sites
// ("call mapupdate:<field> ..." / "call delete:<field> ...") for assertions and ghost updates.
func (vc *FnVC) mapSite(kind string, m ssa.Value, args []TV, pos token.Pos) {
	if vc.ct == nil {
		return
	}
	name, ord := vc.mapSiteNameOrd(kind, m, pos)
	vc.callOrd[name] = ord
	vc.siteAsserts(name, ord, vc.cur, args, pos)
	vc.pendingSite = name
	vc.pendingArgs = args
}

// mapSiteNameOrd: the site name ("mapupdate", "delete", with ":<field>" when the map is loaded from a struct field) and the
// ordinal in source order among the sites of the same name, of the map operation at pos.
func (vc *FnVC) mapSiteNameOrd(kind string, m ssa.Value, pos token.Pos) (string, int) {
	name := kind
	if u, ok := m.(*ssa.UnOp); ok {
		if fa, ok := u.X.(*ssa.FieldAddr); ok {
			st := fa.X.Type().Underlying().(*types.Pointer).Elem().Underlying().(*types.Struct)
			name = kind + ":" + st.Field(fa.Field).Name()
		}
	}
	// ordinal in source order among the sites of the same name
	ord := 1
	for _, b := range vc.fn.Blocks {
		for _, in := range b.Instrs {
			var mv ssa.Value
			k2 := ""
			switch y := in.(type) {
			case *ssa.MapUpdate:
				mv, k2 = y.Map, "mapupdate"
			case *ssa.Call:
				if bi, ok := y.Call.Value.(*ssa.Builtin); ok && bi.Name() == "delete" {
					mv, k2 = y.Call.Args[0], "delete"
				}
			}
			if mv == nil || k2 != kind || in.Pos() >= pos {
				continue
			}
			n2 := k2
			if u, ok := mv.(*ssa.UnOp); ok {
				if fa, ok := u.X.(*ssa.FieldAddr); ok {
					st := fa.X.Type().Underlying().(*types.Pointer).Elem().Underlying().(*types.Struct)
					n2 = k2 + ":" + st.Field(fa.Field).Name()
				}
			}
			if n2 == name {
				ord++
			}
		}
	}
	return name, ord
}

func (vc *FnVC) mapSiteDone() {
	if vc.pendingSite != "" {
		vc.cur = vc.applyCallGhostsX(vc.pendingSite, vc.pendingArgs, nil, vc.cur, nil)
		vc.pendingSite = ""
	}
}

// siteOrdinal: the k-th call of `name` in source order (stable under CFG reordering).
func (vc *FnVC) siteOrdinal(c ssa.CallInstruction, name string) int {
	if vc.siteOrd == nil {
		vc.siteOrd = map[ssa.Instruction]int{}
		byName := map[string][]ssa.CallInstruction{}
		for _, b := range vc.fn.Blocks {
			for _, in := range b.Instrs {
				if ci, ok := in.(ssa.CallInstruction); ok {
					if bi, isBuiltin := ci.Common().Value.(*ssa.Builtin); isBuiltin && bi.Name() != "append" {
						continue
					}
					n := calleeShort(ci.Common())
					byName[n] = append(byName[n], ci)
				}
			}
		}
		for _, list := range byName {
			sort.SliceStable(list, func(i, j int) bool { return list[i].Pos() < list[j].Pos() })
			for i, ci := range list {
				vc.siteOrd[ci] = i + 1
			}
		}
	}
	return vc.siteOrd[c]
}

// sortSlice: sort.Slice / sort.SliceStable permute the elements of the given slice in place and touch nothing else
// (the comparison closure is assumed to be free of side effects): only that slice type's element component is havoc'd.
func isSortSlice(cc *ssa.CallCommon) bool {
	fn, ok := cc.Value.(*ssa.Function)
	if !ok || fn.Pkg == nil || fn.Pkg.Pkg.Path() != "sort" || (fn.Name() != "Slice" && fn.Name() != "SliceStable") || len(cc.Args) == 0 {
		return false
	}
	mi, ok := cc.Args[0].(*ssa.MakeInterface)
	if !ok {
		return false
	}
	_, ok = mi.X.Type().Underlying().(*types.Slice)
	return ok
}

func (vc *FnVC) sortSlice(cc *ssa.CallCommon) bool {
	fn, ok := cc.Value.(*ssa.Function)
	if !ok || fn.Pkg == nil || fn.Pkg.Pkg.Path() != "sort" || (fn.Name() != "Slice" && fn.Name() != "SliceStable") || len(cc.Args) == 0 {
		return false
	}
	mi, ok := cc.Args[0].(*ssa.MakeInterface)
	if !ok {
		return false
	}
	st, ok := mi.X.Type().Underlying().(*types.Slice)
	if !ok {
		return false
	}
	// sort.Slice permutes s[0:len(s)] in place: the backing array of s changes only inside that window, and the new window
	// is a permutation of the old one (p: old index -> new index, q: new index -> old index). Order is left unspecified.
	comp := vc.e.arrComp(st.Elem())
	sl := vc.val(mi.X)
	oldArr := vc.cur.get(comp)
	es := vc.e.sortOf(st.Elem())
	oldInner := vc.define(vc.e.fresh("sort_old"), fmt.Sprintf("(Array Int %s)", es), app("select", oldArr, app("sref", sl)))
	newInner := vc.declare(vc.e.fresh("sort_new"), fmt.Sprintf("(Array Int %s)", es))
	pf, qf := vc.e.fresh("sort_p"), vc.e.fresh("sort_q")
	vc.emit(fmt.Sprintf("(declare-fun %s (Int) Int)\n(declare-fun %s (Int) Int)", pf, qf))
	off, n := app("soff", sl), app("slen", sl)
	in := func(i Term) Term { return and(app("<=", "0", i), app("<", i, n)) }
	vc.assume("true", fmt.Sprintf("(forall ((i Int)) (! (=> %s (and %s (= (select %s (at %s (%s i))) (select %s (at %s i))))) :pattern ((%s i)) :pattern ((select %s (at %s i)))))",
		in("i"), in(app(pf, "i")), newInner, off, pf, oldInner, off, pf, oldInner, off))
	vc.assume("true", fmt.Sprintf("(forall ((j Int)) (! (=> %s (and %s (= (select %s (at %s j)) (select %s (at %s (%s j)))))) :pattern ((%s j)) :pattern ((select %s (at %s j)))))",
		in("j"), in(app(qf, "j")), newInner, off, oldInner, off, qf, qf, newInner, off))
	vc.assume("true", fmt.Sprintf("(forall ((x Int)) (! (=> (or (< x %s) (>= x (+ %s %s))) (= (select %s x) (select %s x))) :pattern ((select %s x))))", off, off, n, newInner, oldInner, newInner))
	vc.cur = vc.cur.update(comp, app("store", oldArr, app("sref", sl), newInner))
	vc.trustedUsed["library: sort.Slice/SliceStable only permute the elements of the slice they are given (comparison closure without side effects)"] = true
	return true
}

// atomicOp: sync/atomic operations on a struct field or variable are single atomic steps on that location.
func (vc *FnVC) atomicOp(cc *ssa.CallCommon, val *ssa.Call) bool {
	fn, ok := cc.Value.(*ssa.Function)
	if !ok || fn.Pkg == nil || fn.Pkg.Pkg.Path() != "sync/atomic" || len(cc.Args) == 0 {
		return false
	}
	op := fn.Name()
	for _, suf := range []string{"Int64", "Int32", "Uint64", "Uint32", "Uintptr"} {
		op = strings.TrimSuffix(op, suf)
	}
	lv := vc.lvOf(cc.Args[0])
	old := vc.define(vc.e.fresh("atomic_old"), vc.e.sortOf(lv.typ), vc.loadLV(lv, vc.cur))
	set := func(t Term) {
		if val != nil {
			vc.setVal(val, t)
		}
	}
	name := "atomic." + op
	vc.callOrd[name]++
	switch op {
	case "Load":
		set(old)
	case "Store":
		vc.cur = vc.storeLV(lv, vc.cur, vc.val(cc.Args[1]))
	case "Swap":
		vc.cur = vc.storeLV(lv, vc.cur, vc.val(cc.Args[1]))
		set(old)
	case "Add":
		nv := app("+", old, vc.val(cc.Args[1]))
		vc.cur = vc.storeLV(lv, vc.cur, nv)
		set(nv)
	case "CompareAndSwap":
		okT := app("=", old, vc.val(cc.Args[1]))
		vc.cur = vc.storeLV(lv, vc.cur, app("ite", okT, vc.val(cc.Args[2]), old))
		set(okT)
	default:
		return false
	}
	vc.trustedUsed["sync/atomic operations are sequentially consistent single steps on their location"] = true
	var res []TV
	if val != nil {
		if t, ok := vc.vals[val]; ok {
			res = []TV{{t: t, ty: val.Type()}}
		}
	}
	vc.cur = vc.applyCallGhostsX(name, nil, res, vc.cur, nil)
	return true
}

func firstNonEmpty(a, b string) string {
	if a != "" {
		return a
	}
	return b
}

func sanitize(s string) string {
	return strings.NewReplacer("$", "_", ".", "_", "(", "", ")", "", "*", "").Replace(s)
}

func (ct *FuncContract) PkgPath() string { return ct.Pkg }

// pureCall: result is an uninterpreted function of scalar arguments, otherwise unconstrained.
// pure (no heap effect) but not a function of the arguments: the answer changes with time
var volatilePure = map[string]bool{"(context.Context).Err": true}

func (vc *FnVC) pureCall(full string, args []TV, results []TV, sig *types.Signature) {
	scalar := true
	var sorts, ts []string
	for _, a := range args {
		s := vc.e.sortOf(a.ty)
		if s == "Slice" || (s == "Int" && isRefType(a.ty)) || strings.HasPrefix(s, "(Array") {
			scalar = false
		}
		sorts = append(sorts, s)
		ts = append(ts, a.t)
	}
	for i := range results {
		rt := sig.Results().At(i).Type()
		rs := vc.e.sortOf(rt)
		if scalar && len(args) > 0 && !volatilePure[full] {
			f := sym(fmt.Sprintf("uf$%s$%d$%s", full, i, strings.Join(sorts, ",")))
			vc.e.decl("uf:"+f, fmt.Sprintf("(declare-fun %s (%s) %s)", f, strings.Join(sorts, " "), rs))
			results[i] = TV{t: vc.define(vc.e.fresh("pure"), rs, app(f, ts...)), ty: rt}
		} else {
			results[i] = TV{t: vc.declare(vc.e.fresh("pure"), rs), ty: rt}
		}
	}
}

func (vc *FnVC) bindParams(env *Env, callee *ssa.Function, cc *ssa.CallCommon, ct *FuncContract, args []TV) {
	if callee != nil {
		k := 0
		// closures: free variables first? (ssa passes bindings separately) -> bind by name from MakeClosure
		if mc, ok := cc.Value.(*ssa.MakeClosure); ok {
			for i, fv := range callee.FreeVars {
				env.names[fv.Name()] = TV{t: vc.val(mc.Bindings[i]), ty: fv.Type()}
			}
		}
		for _, p := range callee.Params {
			if k < len(args) {
				env.names[p.Name()] = args[k]
			}
			k++
		}
	} else {
		// interface method: receiver is "recv", parameters by signature names
		sig := cc.Signature()
		env.names["recv"] = args[0]
		for i := 0; i < sig.Params().Len(); i++ {
			if n := sig.Params().At(i).Name(); n != "" && i+1 < len(args) {
				env.names[n] = args[i+1]
			}
		}
	}
	// ghost parameters of the callee are existentially chosen by the caller: fresh constants
	for _, g := range ct.GhostPar {
		if _, ok := env.names[g.Name]; ok {
			continue
		}
		ty, err := vc.w.resolveType(env.pkg, g.Typ)
		if err != nil {
			panic(unsupported{err.Error()})
		}
		t := vc.declare(vc.e.fresh("gparg_"+g.Name), vc.pureSort(ty))
		env.names[g.Name] = TV{t: t, ty: ty, pure: true}
		env.names["gp$"+g.Name] = env.names[g.Name]
	}
}

func (vc *FnVC) bindResults(env *Env, sig *types.Signature, results []TV) {
	n := len(results)
	for i, r := range results {
		name := sig.Results().At(i).Name()
		if name != "" && name != "_" {
			env.names[name] = r
		}
		if i == 0 {
			env.names["result"] = r
		}
		env.names[fmt.Sprintf("result%d", i)] = r
		if i == n-1 && types.Identical(r.ty, types.Universe.Lookup("error").Type()) {
			if _, taken := env.names["err"]; !taken || name == "err" {
				env.names["err"] = r
			}
		}
	}
}

func (vc *FnVC) applyCallGhosts(name string, args, results []TV, m *Mem) *Mem {
	return vc.applyCallGhostsX(name, args, results, m, nil)
}

func (vc *FnVC) applyCallGhostsX(name string, args, results []TV, m *Mem, extra map[string]TV) *Mem {
	if vc.ct == nil {
		return m
	}
	ord := vc.callOrd[name]
	for _, g := range vc.ct.CallGhost {
		if g.Callee != name || (g.Ordinal != 0 && g.Ordinal != ord) {
			continue
		}
		vc.matchedSites["ghost "+g.Callee] = true
		vc.matchedSites[fmt.Sprintf("ghost %s#%d", g.Callee, g.Ordinal)] = true
		env := vc.newEnv(m, vc.mem0)
		env.resolve = vc.blockResolver(vc.curBlock, m)
		for i, a := range args {
			env.names[fmt.Sprintf("arg%d", i)] = a
		}
		for i, r := range results {
			env.names[fmt.Sprintf("ret%d", i)] = r
		}
		for k, v := range extra {
			env.names[k] = v
		}
		m = vc.applyGhost(env, g.Upd, m)
	}
	return m
}

// blockResolver resolves source names at (the end of) a block.
func (vc *FnVC) blockResolver(b *ssa.BasicBlock, m *Mem) func(string) (TV, bool) {
	limit := vc.curIdx
	return func(name string) (TV, bool) {
		if name == "rangekey" {
			// the key of the innermost enclosing map-range iteration (also when the source names no key variable)
			for d := b; d != nil; d = d.Idom() {
				for i := len(d.Instrs) - 1; i >= 0; i-- {
					if d == b && i >= limit {
						continue
					}
					if nx, ok := d.Instrs[i].(*ssa.Next); ok && !nx.IsString {
						if tup, ok := vc.tuples[nx]; ok && len(tup) == 3 {
							if r, ok := nx.Iter.(*ssa.Range); ok {
								return TV{t: tup[1], ty: r.X.Type().Underlying().(*types.Map).Key()}, true
							}
						}
					}
				}
			}
			return TV{}, false
		}
		for d := b; d != nil; d = d.Idom() {
			binds := vc.debug[d]
			for i := len(binds) - 1; i >= 0; i-- {
				if d == b && binds[i].idx >= limit {
					continue // only bindings before the current instruction are in effect
				}
				if binds[i].name == name {
					if _, ok := vc.vals[binds[i].val]; ok || isConstOrParam(binds[i].val) {
						return vc.debugTV(binds[i], m), true
					}
				}
			}
			for _, in := range d.Instrs {
				phi, ok := in.(*ssa.Phi)
				if !ok {
					break
				}
				if phi.Comment == name {
					if _, ok := vc.vals[phi]; ok {
						return TV{t: vc.val(phi), ty: phi.Type()}, true
					}
				}
			}
		}
		// no mention of the name before this point: a cell variable (captured or address-taken) by name
		if tv, ok := vc.cellVar(name, b, m); ok {
			return tv, true
		}
		return TV{}, false
	}
}

var unknownIdentRe = regexp.MustCompile(`unknown identifier "([^"]+)"`)

// funcHasName: does fn have a parameter, result, captured variable or local of that name?
func funcHasName(fn *ssa.Function, name string) bool {
	for _, p := range fn.Params {
		if p.Name() == name {
			return true
		}
	}
	for _, p := range fn.FreeVars {
		if p.Name() == name {
			return true
		}
	}
	res := fn.Signature.Results()
	for i := 0; i < res.Len(); i++ {
		if res.At(i).Name() == name {
			return true
		}
	}
	switch name {
	case "result", "err", "result0", "result1", "result2":
		return true
	}
	for _, b := range fn.Blocks {
		for _, in := range b.Instrs {
			switch x := in.(type) {
			case *ssa.DebugRef:
				if o := x.Object(); o != nil && o.Name() == name {
					return true
				}
			case *ssa.Phi:
				if x.Comment == name {
					return true
				}
			case *ssa.Alloc:
				if x.Comment == name {
					return true
				}
			}
		}
	}
	return false
}

// cellVar: a variable that lives in a cell (captured by a closure, or address-taken) denotes the cell's current content
// in state m; b is the block the expression is evaluated in (the cell's allocation must dominate it).
func (vc *FnVC) cellVar(name string, b *ssa.BasicBlock, m *Mem) (TV, bool) {
	for _, fv := range vc.fn.FreeVars {
		if fv.Name() == name {
			if immutableFreeVar(vc.fn, fv, 0) {
				return TV{t: vc.fvConstTerm(fv), ty: fv.Type().Underlying().(*types.Pointer).Elem()}, true
			}
			lv := vc.lvOf(fv)
			return TV{t: vc.loadLV(lv, m), ty: lv.typ}, true
		}
	}
	for _, blk := range vc.fn.Blocks {
		for _, in := range blk.Instrs {
			if a, ok := in.(*ssa.Alloc); ok && a.Comment == name && blk.Dominates(b) {
				if _, defined := vc.vals[a]; !defined {
					continue
				}
				if sv := vc.immutableCell(a); sv != nil {
					if _, ok := vc.vals[sv]; ok || isConstOrParam(sv) {
						return TV{t: vc.val(sv), ty: sv.Type()}, true
					}
				}
				lv := vc.lvOf(a)
				return TV{t: vc.loadLV(lv, m), ty: lv.typ}, true
			}
		}
	}
	return TV{}, false
}

func isConstOrParam(v ssa.Value) bool {
	switch v.(type) {
	case *ssa.Const, *ssa.Parameter, *ssa.FreeVar, *ssa.Global, *ssa.Function:
		return true
	}
	return false
}

func (vc *FnVC) builtin(b *ssa.Builtin, cc *ssa.CallCommon, val *ssa.Call) {
	set := func(t Term) {
		if val != nil {
			vc.setVal(val, t)
		}
	}
	switch b.Name() {
	case "len":
		x := vc.val(cc.Args[0])
		switch t := cc.Args[0].Type().Underlying().(type) {
		case *types.Slice:
			set(app("slen", x))
		case *types.Map:
			_, _, l := vc.e.mapComps(t)
			d, _, _ := vc.e.mapComps(t)
			ln := app("select", vc.cur.get(l), x)
			vc.assume("true", vc.mapLenWF(t, d, ln, x, vc.cur))
			set(ln)
		case *types.Basic:
			set(app("strlen", x))
		case *types.Array:
			set(fmt.Sprint(t.Len()))
		case *types.Chan:
			t0 := vc.declare(vc.e.fresh("chanlen"), "Int")
			vc.assume("true", app(">=", t0, "0"))
			set(t0)
		default:
			panic(unsupported{"len of " + cc.Args[0].Type().String()})
		}
	case "cap":
		x := vc.val(cc.Args[0])
		switch cc.Args[0].Type().Underlying().(type) {
		case *types.Slice:
			set(app("scap", x))
		default:
			t0 := vc.declare(vc.e.fresh("cap"), "Int")
			vc.assume("true", app(">=", t0, "0"))
			set(t0)
		}
	case "append":
		// a named site ("append", ordinals in source order): asserts before, ghost updates after
		var args []TV
		for _, a := range cc.Args {
			args = append(args, TV{t: vc.val(a), ty: a.Type()})
		}
		ord := 0
		if val != nil {
			ord = vc.siteOrdinal(val, "append")
			vc.callOrd["append"] = ord
			vc.siteAsserts("append", ord, vc.cur, args, cc.Pos())
		}
		vc.appendOp(cc, val)
		if val != nil {
			vc.cur = vc.applyCallGhostsX("append", args, []TV{{t: vc.val(val), ty: val.Type()}}, vc.cur, nil)
		}
	case "copy":
		vc.copyOp(cc, val)
	case "delete":
		mt := cc.Args[0].Type().Underlying().(*types.Map)
		m, k := vc.val(cc.Args[0]), vc.val(cc.Args[1])
		vc.mapSite("delete", cc.Args[0], []TV{{t: m, ty: cc.Args[0].Type()}, {t: k, ty: cc.Args[1].Type()}}, cc.Pos())
		defer vc.mapSiteDone()
		d, _, l := vc.e.mapComps(mt)
		had := app("select", app("select", vc.cur.get(d), m), k)
		nl := app("ite", had, app("-", app("select", vc.cur.get(l), m), "1"), app("select", vc.cur.get(l), m))
		upd := vc.cur.update(l, app("ite", app("=", m, "0"), vc.cur.get(l), app("store", vc.cur.get(l), m, nl)))
		vc.cur = upd.update(d, app("ite", app("=", m, "0"), vc.cur.get(d), app("store", vc.cur.get(d), m, app("store", app("select", vc.cur.get(d), m), k, "false"))))
	case "panic":
		if vc.ct == nil || !vc.ct.MayPanic {
			n := vc.count("safety.panic")
			vc.oblige("safety", fmt.Sprintf("safety.panic#%d", n), vc.b(), "false", cc.Pos(), "explicit panic unreachable")
		}
	case "recover":
		t := vc.declare(vc.e.fresh("recovered"), "Any")
		if val != nil {
			vc.vals[val] = t
		}
		vc.callOrd["recover"]++
		vc.cur = vc.applyCallGhostsX("recover", nil, []TV{{t: t, ty: tAny}}, vc.cur, nil)
	case "print", "println":
	case "close":
		// closing a channel is an addressable site ("call close#k ...")
		ord := 1
		for _, blk := range vc.fn.Blocks {
			for _, in := range blk.Instrs {
				if c, ok := in.(ssa.CallInstruction); ok && in.Pos() < cc.Pos() {
					if bi, ok := c.Common().Value.(*ssa.Builtin); ok && bi.Name() == "close" {
						ord++
					}
				}
			}
		}
		vc.callOrd["close"] = ord
		args := []TV{{t: vc.val(cc.Args[0]), ty: cc.Args[0].Type()}}
		vc.siteAsserts("close", ord, vc.cur, args, cc.Pos())
		vc.cur = vc.applyCallGhostsX("close", args, nil, vc.cur, nil)
	case "min", "max":
		a, c := vc.val(cc.Args[0]), vc.val(cc.Args[1])
		op := "<="
		if b.Name() == "max" {
			op = ">="
		}
		set(app("ite", app(op, a, c), a, c))
	default:
		panic(unsupported{"builtin " + b.Name()})
	}
}

// mapLenWF: len(m) >= 0 and len(m) == 0 iff the domain is empty.
func (vc *FnVC) mapLenWF(t *types.Map, d string, ln, m Term, mem *Mem) Term {
	ks := vc.e.sortOf(t.Key())
	empty := fmt.Sprintf("((as const (Array %s Bool)) false)", ks)
	return and(app(">=", ln, "0"), app("=", app("=", ln, "0"), app("=", app("select", mem.get(d), m), empty)))
}

func (vc *FnVC) appendOp(cc *ssa.CallCommon, val *ssa.Call) {
	st := cc.Args[0].Type().Underlying().(*types.Slice)
	et := st.Elem()
	es := vc.e.sortOf(et)
	comp := vc.e.arrComp(et)
	s, t := vc.val(cc.Args[0]), vc.val(cc.Args[1])
	if _, isStr := cc.Args[1].Type().Underlying().(*types.Basic); isStr {
		// append([]byte, string...)
		r := vc.newRef()
		nl := app("+", app("slen", s), app("strlen", t))
		vc.cur = vc.cur.havoc(map[string]bool{comp: true}, nil)
		if val != nil {
			vc.setVal(val, app("mkslice", r, "0", nl, nl))
		}
		return
	}
	A := vc.cur.get(comp)
	tl := app("slen", t)
	newLen := vc.define(vc.e.fresh("applen"), "Int", app("+", app("slen", s), tl))
	fits := vc.define(vc.e.fresh("appfits"), "Bool", app("<=", newLen, app("scap", s)))
	fresh := vc.newRef()
	newCap := vc.declare(vc.e.fresh("appcap"), "Int")
	vc.assume("true", app(">=", newCap, newLen))
	// in-place array: elements [len, len+tl) overwritten with t
	srcArr := app("select", A, app("sref", t))
	sArr := app("select", A, app("sref", s))
	var inPlace, grown Term
	if n, ok := constLen(cc.Args[1]); ok && n <= 4 {
		inPlace = sArr
		for j := 0; j < n; j++ {
			inPlace = app("store", inPlace, app("at", app("soff", s), app("+", app("slen", s), fmt.Sprint(j))), app("select", srcArr, app("at", app("soff", t), fmt.Sprint(j))))
		}
	} else {
		ip := vc.declare(vc.e.fresh("appinplace"), "(Array Int "+es+")")
		vc.assume("true", fmt.Sprintf("(forall ((j! Int)) (! (= (select %s j!) (ite (and (<= (+ (soff %s) (slen %s)) j!) (< j! (+ (soff %s) %s))) (select %s (+ (soff %s) (- j! (+ (soff %s) (slen %s))))) (select %s j!))) :pattern ((select %s j!))))",
			ip, s, s, s, newLen, srcArr, t, s, s, sArr, ip))
		inPlace = ip
	}
	g := vc.declare(vc.e.fresh("appgrown"), "(Array Int "+es+")")
	vc.assume("true", fmt.Sprintf("(forall ((j! Int)) (! (=> (and (<= 0 j!) (< j! %s)) (= (select %s j!) (ite (< j! (slen %s)) (select %s (+ (soff %s) j!)) (select %s (+ (soff %s) (- j! (slen %s))))))) :pattern ((select %s j!))))",
		newLen, g, s, sArr, s, srcArr, t, s, g))
	grown = g
	newA := app("ite", fits, app("store", A, app("sref", s), inPlace), app("store", A, fresh, grown))
	// appending to a nil/zero-cap slice with nothing to add keeps it as is; Go returns s itself when tl == 0
	vc.cur = vc.cur.update(comp, app("ite", app("=", tl, "0"), A, newA))
	res := app("ite", app("=", tl, "0"), s, app("ite", fits, app("mkslice", app("sref", s), app("soff", s), newLen, app("scap", s)), app("mkslice", fresh, "0", newLen, newCap)))
	if val != nil {
		vc.setVal(val, res)
	}
}

// constLen: statically known length of a varargs slice (slice of a fresh [N]T array).
func constLen(v ssa.Value) (int, bool) {
	sl, ok := v.(*ssa.Slice)
	if !ok || sl.Low != nil || sl.High != nil {
		return 0, false
	}
	al, ok := sl.X.(*ssa.Alloc)
	if !ok {
		return 0, false
	}
	at, ok := al.Type().Underlying().(*types.Pointer).Elem().Underlying().(*types.Array)
	if !ok {
		return 0, false
	}
	return int(at.Len()), true
}

func (vc *FnVC) copyOp(cc *ssa.CallCommon, val *ssa.Call) {
	st := cc.Args[0].Type().Underlying().(*types.Slice)
	et := st.Elem()
	es := vc.e.sortOf(et)
	comp := vc.e.arrComp(et)
	d := vc.val(cc.Args[0])
	if _, isStr := cc.Args[1].Type().Underlying().(*types.Basic); isStr {
		vc.cur = vc.cur.havoc(map[string]bool{comp: true}, nil)
		n := vc.declare(vc.e.fresh("copyn"), "Int")
		if val != nil {
			vc.vals[val] = n
		}
		return
	}
	s := vc.val(cc.Args[1])
	A := vc.cur.get(comp)
	n := vc.define(vc.e.fresh("copyn"), "Int", app("ite", app("<=", app("slen", d), app("slen", s)), app("slen", d), app("slen", s)))
	na := vc.declare(vc.e.fresh("copyarr"), "(Array Int "+es+")")
	dArr, sArr := app("select", A, app("sref", d)), app("select", A, app("sref", s))
	vc.assume("true", fmt.Sprintf("(forall ((j! Int)) (! (= (select %s j!) (ite (and (<= (soff %s) j!) (< j! (+ (soff %s) %s))) (select %s (+ (soff %s) (- j! (soff %s)))) (select %s j!))) :pattern ((select %s j!))))",
		na, d, d, n, sArr, s, d, dArr, na))
	vc.cur = vc.cur.update(comp, app("ite", app("=", n, "0"), A, app("store", A, app("sref", d), na)))
	if val != nil {
		vc.vals[val] = n
	}
}
