package main

// Contract files: comment-only Go files in /repo (build tag verif) whose //@ lines
// carry Gobra-style contracts keyed by function name and loop ordinal.

import (
	"bufio"
	"fmt"
	"os"
	"strconv"
	"strings"
	"unicode"
)

// ---------------------------------------------------------------- AST

type Expr interface{}

type (
	EIdent struct{ Name string }
	EInt   struct{ V string }
	EStr   struct{ V string }
	EBool  struct{ V bool }
	ENil   struct{}
	EUnary struct {
		Op string
		X  Expr
	}
	EBinary struct {
		Op   string
		X, Y Expr
	}
	EQuant struct {
		Forall bool
		Vars   []QVar
		Body   Expr
		Pats   [][]Expr
	}
	ESel struct {
		X    Expr
		Name string
	}
	EIndex struct{ X, I Expr }
	ESlice struct{ X, Lo, Hi Expr }
	ECall  struct {
		Fn   string
		Args []Expr
	}
	EOld struct{ X Expr }
	EIs  struct {
		X   Expr
		Typ string
	}
	EAssert struct {
		X   Expr
		Typ string
	}
	EIn  struct{ K, M Expr }
	EIte struct{ C, A, B Expr }
)

type QVar struct{ Name, Typ string }

// ---------------------------------------------------------------- contract structures

type Clause struct {
	Text string
	E    Expr
	Line int
}

type GhostDecl struct{ Name, Typ string }

type GhostUpdate struct {
	Target Expr // EIdent or EIndex(EIdent, idx)
	Value  Expr
	Text   string
}

type LoopContract struct {
	N          int
	Invariants []Clause
	Decreases  *Clause
	Ghost      []GhostUpdate // at back edge
}

type CallAssert struct {
	Callee  string
	Ordinal int
	C       Clause
}

type CallGhost struct {
	Callee  string // name as printed by shortCallee
	Ordinal int    // 0 = every call of that callee
	Upd     GhostUpdate
}

type FuncContract struct {
	NoCall     []string // site names that must not occur (reachably) in the function
	Name       string
	Pkg        string
	Trusted    bool
	Assumes    []Clause
	Requires   []Clause
	Ensures    []Clause
	Assigns    []string // type strings; "nothing", "all"
	HasAssign  bool
	Ghosts     []GhostDecl
	GhostPar   []GhostDecl // ghost parameters (universally quantified inputs)
	Loops      map[int]*LoopContract
	CallGhost  []CallGhost
	CallAssert []CallAssert
	CallAssume []CallAssert
	RetGhost   []GhostUpdate
	EntryGhost []GhostUpdate
	Pure       bool
	Holds      []string
	Locks      []string // "param.mu": mutexes this function acquires and releases internally
	Keeps      []string // types whose heap components opaque callees of this function cannot reach (trusted)
	MayPanic   bool
	Line       int
	File       string
	Notes      []string
}

type PredDef struct {
	Abstract bool
	Name     string
	Params   []QVar
	Body     Expr
	Text     string
}

type LemmaDef struct {
	Name string
	Body Expr
	Text string
	Line int
}

type ContractFile struct {
	Path     string
	Pkg      string
	Funcs    map[string]*FuncContract
	Order    []string
	Preds    map[string]*PredDef
	Lemmas   []*LemmaDef
	Trusted  []string // text of every trusted declaration (for the evidence)
	Guarded  []GuardDecl
	ReadOnly []string // "pkgname.Var": package-level variables only assigned by their initialiser (checked structurally for thunder packages)
	NonNil   []string // "pkg.Type.Field": trusted facts that a pointer/interface field is never nil
}

// GuardDecl: //@ guarded_by Type.mu: field1, field2 [; exempt fn1, fn2]
type GuardDecl struct {
	Struct string
	Mutex  string
	Fields []string
	Exempt map[string]bool // function names exempt (constructors etc.), with reason in Notes
	Line   int
}

func parseContractFile(path, pkg string) (*ContractFile, error) {
	f, err := os.Open(path)
	if err != nil {
		return nil, err
	}
	defer f.Close()
	cf := &ContractFile{Path: path, Pkg: pkg, Funcs: map[string]*FuncContract{}, Preds: map[string]*PredDef{}}
	type rawLine struct {
		text string
		line int
	}
	var raws []rawLine
	sc := bufio.NewScanner(f)
	sc.Buffer(make([]byte, 1<<20), 1<<20)
	ln := 0
	for sc.Scan() {
		ln++
		t := strings.TrimSpace(sc.Text())
		if !strings.HasPrefix(t, "//@") {
			continue
		}
		t = strings.TrimSpace(t[3:])
		if t == "" {
			continue
		}
		// strip trailing "// comment" outside string literals
		t = stripComment(t)
		raws = append(raws, rawLine{t, ln})
	}
	// join continuation lines: a line that does not start with a keyword continues the previous one
	kw := map[string]bool{"func": true, "requires": true, "ensures": true, "assigns": true, "ghost": true, "ghostparam": true,
		"loop": true, "call": true, "trusted": true, "pred": true, "lemma": true, "pure": true, "maypanic": true, "nocall": true,
		"guarded_by": true, "return": true, "note": true, "entry": true, "upred": true, "holds": true, "keeps": true, "locks": true, "assume": true, "nonnil": true, "readonly": true}
	var joined []rawLine
	for _, r := range raws {
		first := r.text
		if i := strings.IndexFunc(first, func(c rune) bool { return unicode.IsSpace(c) }); i >= 0 {
			first = first[:i]
		}
		if kw[first] || len(joined) == 0 {
			joined = append(joined, r)
		} else {
			joined[len(joined)-1].text += " " + r.text
		}
	}
	var cur *FuncContract
	for _, r := range joined {
		word, rest := splitWord(r.text)
		fail := func(e error) error { return fmt.Errorf("%s:%d: %v (in %q)", path, r.line, e, r.text) }
		switch word {
		case "func", "trusted":
			name := rest
			trusted := word == "trusted"
			if trusted {
				w2, r2 := splitWord(rest)
				if w2 != "func" {
					return nil, fail(fmt.Errorf("expected 'trusted func NAME'"))
				}
				name = r2
			}
			name = strings.TrimSpace(name)
			if i := strings.IndexAny(name, " ("); i >= 0 {
				name = name[:i]
			}
			cur = &FuncContract{Name: name, Pkg: pkg, Trusted: trusted, Loops: map[int]*LoopContract{}, Line: r.line, File: path}
			if _, dup := cf.Funcs[name]; dup {
				return nil, fail(fmt.Errorf("duplicate contract for %s", name))
			}
			cf.Funcs[name] = cur
			cf.Order = append(cf.Order, name)
			if trusted {
				cf.Trusted = append(cf.Trusted, pkg+"."+name)
			}
		case "assume":
			if cur == nil {
				return nil, fail(fmt.Errorf("clause outside func"))
			}
			e, err := parseExpr(rest)
			if err != nil {
				return nil, fail(err)
			}
			cur.Assumes = append(cur.Assumes, Clause{Text: rest, E: e, Line: r.line})
		case "requires", "ensures":
			if cur == nil {
				return nil, fail(fmt.Errorf("clause outside func"))
			}
			e, err := parseExpr(rest)
			if err != nil {
				return nil, fail(err)
			}
			c := Clause{Text: rest, E: e, Line: r.line}
			if word == "requires" {
				cur.Requires = append(cur.Requires, c)
			} else {
				cur.Ensures = append(cur.Ensures, c)
			}
		case "assigns":
			if cur == nil {
				return nil, fail(fmt.Errorf("clause outside func"))
			}
			cur.HasAssign = true
			for _, a := range splitTop(rest, ',') {
				a = strings.TrimSpace(a)
				if a != "" {
					cur.Assigns = append(cur.Assigns, a)
				}
			}
		case "keeps":
			if cur == nil {
				return nil, fail(fmt.Errorf("clause outside func"))
			}
			for _, a := range splitTop(rest, ',') {
				if a = strings.TrimSpace(a); a != "" {
					cur.Keeps = append(cur.Keeps, a)
				}
			}
		case "locks":
			if cur == nil {
				return nil, fail(fmt.Errorf("clause outside func"))
			}
			cur.Locks = append(cur.Locks, strings.TrimSpace(rest))
		case "holds":
			if cur == nil {
				return nil, fail(fmt.Errorf("clause outside func"))
			}
			cur.Holds = append(cur.Holds, strings.TrimSpace(rest))
		case "pure":
			cur.Pure = true
			cur.HasAssign = true
			cur.Assigns = []string{"nothing"}
		case "maypanic":
			cur.MayPanic = true
		case "nocall":
			// nocall SITE, ...: the function has no reachable site of that name (e.g. no channel operation of its own)
			if cur == nil {
				return nil, fail(fmt.Errorf("clause outside func"))
			}
			for _, a := range splitTop(rest, ',') {
				if a = strings.TrimSpace(a); a != "" {
					cur.NoCall = append(cur.NoCall, a)
				}
			}
		case "note":
			if cur != nil {
				cur.Notes = append(cur.Notes, rest)
			}
		case "ghost", "ghostparam":
			if cur == nil {
				return nil, fail(fmt.Errorf("clause outside func"))
			}
			n, t := splitWord(rest)
			if word == "ghost" {
				cur.Ghosts = append(cur.Ghosts, GhostDecl{n, strings.TrimSpace(t)})
			} else {
				cur.GhostPar = append(cur.GhostPar, GhostDecl{n, strings.TrimSpace(t)})
			}
		case "loop":
			if cur == nil {
				return nil, fail(fmt.Errorf("clause outside func"))
			}
			ns, rest2 := splitWord(rest)
			n, err := strconv.Atoi(ns)
			if err != nil {
				return nil, fail(fmt.Errorf("loop ordinal: %v", err))
			}
			lc := cur.Loops[n]
			if lc == nil {
				lc = &LoopContract{N: n}
				cur.Loops[n] = lc
			}
			k, body := splitWord(rest2)
			switch k {
			case "invariant":
				e, err := parseExpr(body)
				if err != nil {
					return nil, fail(err)
				}
				lc.Invariants = append(lc.Invariants, Clause{Text: body, E: e, Line: r.line})
			case "decreases":
				e, err := parseExpr(body)
				if err != nil {
					return nil, fail(err)
				}
				lc.Decreases = &Clause{Text: body, E: e, Line: r.line}
			case "ghost":
				u, err := parseGhostUpdate(body)
				if err != nil {
					return nil, fail(err)
				}
				lc.Ghost = append(lc.Ghost, u)
			default:
				return nil, fail(fmt.Errorf("unknown loop clause %q", k))
			}
		case "call":
			// call CALLEE[#k] ghost x = e
			if cur == nil {
				return nil, fail(fmt.Errorf("clause outside func"))
			}
			cs, rest2 := splitWord(rest)
			ord := 0
			if i := strings.Index(cs, "#"); i >= 0 {
				o, err := strconv.Atoi(cs[i+1:])
				if err != nil {
					return nil, fail(err)
				}
				ord = o
				cs = cs[:i]
			}
			k, body := splitWord(rest2)
			if k == "assert" || k == "assume" {
				e, err := parseExpr(body)
				if err != nil {
					return nil, fail(err)
				}
				ca := CallAssert{Callee: cs, Ordinal: ord, C: Clause{Text: body, E: e, Line: r.line}}
				if k == "assert" {
					cur.CallAssert = append(cur.CallAssert, ca)
				} else {
					cur.CallAssume = append(cur.CallAssume, ca)
				}
				continue
			}
			if k != "ghost" {
				return nil, fail(fmt.Errorf("expected 'ghost' or 'assert' after call site"))
			}
			u, err := parseGhostUpdate(body)
			if err != nil {
				return nil, fail(err)
			}
			cur.CallGhost = append(cur.CallGhost, CallGhost{Callee: cs, Ordinal: ord, Upd: u})
		case "entry":
			k, body := splitWord(rest)
			if k != "ghost" || cur == nil {
				return nil, fail(fmt.Errorf("expected 'entry ghost x = e'"))
			}
			u, err := parseGhostUpdate(body)
			if err != nil {
				return nil, fail(err)
			}
			cur.EntryGhost = append(cur.EntryGhost, u)
		case "return":
			k, body := splitWord(rest)
			if k != "ghost" || cur == nil {
				return nil, fail(fmt.Errorf("expected 'return ghost x = e'"))
			}
			u, err := parseGhostUpdate(body)
			if err != nil {
				return nil, fail(err)
			}
			cur.RetGhost = append(cur.RetGhost, u)
		case "readonly":
			for _, a := range strings.Split(rest, ",") {
				if a = strings.TrimSpace(a); a != "" {
					cf.ReadOnly = append(cf.ReadOnly, a)
				}
			}
			cur = nil
		case "nonnil":
			for _, a := range strings.Split(rest, ",") {
				if a = strings.TrimSpace(a); a != "" {
					cf.NonNil = append(cf.NonNil, a)
				}
			}
			cur = nil
		case "upred":
			// upred name(x T, y U): an uninterpreted (abstract) predicate
			i := strings.Index(rest, "(")
			j := matchParen(rest, i)
			if i < 0 || j < 0 {
				return nil, fail(fmt.Errorf("bad upred header"))
			}
			name := strings.TrimSpace(rest[:i])
			var params []QVar
			for _, p := range splitTop(rest[i+1:j], ',') {
				p = strings.TrimSpace(p)
				if p == "" {
					continue
				}
				n, t := splitWord(p)
				params = append(params, QVar{n, strings.TrimSpace(t)})
			}
			cf.Preds[name] = &PredDef{Name: name, Params: params, Abstract: true, Text: "abstract"}
			cur = nil
		case "pred":
			// pred name(x T, y U) = expr
			i := strings.Index(rest, "(")
			j := matchParen(rest, i)
			if i < 0 || j < 0 {
				return nil, fail(fmt.Errorf("bad pred header"))
			}
			name := strings.TrimSpace(rest[:i])
			var params []QVar
			for _, p := range splitTop(rest[i+1:j], ',') {
				p = strings.TrimSpace(p)
				if p == "" {
					continue
				}
				n, t := splitWord(p)
				params = append(params, QVar{n, strings.TrimSpace(t)})
			}
			body := strings.TrimSpace(rest[j+1:])
			if !strings.HasPrefix(body, "=") {
				return nil, fail(fmt.Errorf("pred needs '='"))
			}
			body = strings.TrimSpace(body[1:])
			e, err := parseExpr(body)
			if err != nil {
				return nil, fail(err)
			}
			cf.Preds[name] = &PredDef{Name: name, Params: params, Body: e, Text: body}
			cur = nil
		case "lemma":
			i := strings.Index(rest, ":")
			if i < 0 {
				return nil, fail(fmt.Errorf("lemma needs 'name: formula'"))
			}
			body := strings.TrimSpace(rest[i+1:])
			e, err := parseExpr(body)
			if err != nil {
				return nil, fail(err)
			}
			cf.Lemmas = append(cf.Lemmas, &LemmaDef{Name: strings.TrimSpace(rest[:i]), Body: e, Text: body, Line: r.line})
			cur = nil
		case "guarded_by":
			// guarded_by Struct.mu: f1, f2 ; exempt fnA, fnB
			i := strings.Index(rest, ":")
			if i < 0 {
				return nil, fail(fmt.Errorf("guarded_by needs ':'"))
			}
			head := strings.TrimSpace(rest[:i])
			d := strings.Index(head, ".")
			if d < 0 {
				return nil, fail(fmt.Errorf("guarded_by needs Struct.mutex"))
			}
			g := GuardDecl{Struct: head[:d], Mutex: head[d+1:], Exempt: map[string]bool{}, Line: r.line}
			tail := rest[i+1:]
			ex := ""
			if k := strings.Index(tail, ";"); k >= 0 {
				ex = strings.TrimSpace(tail[k+1:])
				tail = tail[:k]
			}
			for _, fl := range strings.Split(tail, ",") {
				if fl = strings.TrimSpace(fl); fl != "" {
					g.Fields = append(g.Fields, fl)
				}
			}
			if strings.HasPrefix(ex, "exempt") {
				for _, fn := range strings.Split(strings.TrimSpace(ex[6:]), ",") {
					if fn = strings.TrimSpace(fn); fn != "" {
						g.Exempt[fn] = true
					}
				}
			}
			cf.Guarded = append(cf.Guarded, g)
			cur = nil
		default:
			return nil, fail(fmt.Errorf("unknown contract keyword %q", word))
		}
	}
	return cf, nil
}

func stripComment(t string) string {
	inStr := false
	for i := 0; i+1 < len(t); i++ {
		if t[i] == '"' {
			inStr = !inStr
		}
		if !inStr && t[i] == '/' && t[i+1] == '/' {
			return strings.TrimSpace(t[:i])
		}
	}
	return t
}

func splitWord(s string) (string, string) {
	s = strings.TrimSpace(s)
	i := strings.IndexFunc(s, unicode.IsSpace)
	if i < 0 {
		return s, ""
	}
	return s[:i], strings.TrimSpace(s[i:])
}

func matchParen(s string, i int) int {
	if i < 0 || i >= len(s) {
		return -1
	}
	d := 0
	for j := i; j < len(s); j++ {
		switch s[j] {
		case '(':
			d++
		case ')':
			d--
			if d == 0 {
				return j
			}
		}
	}
	return -1
}

func splitTop(s string, sep byte) []string {
	var out []string
	d := 0
	last := 0
	for i := 0; i < len(s); i++ {
		switch s[i] {
		case '(', '[', '{':
			d++
		case ')', ']', '}':
			d--
		default:
			if s[i] == sep && d == 0 {
				out = append(out, s[last:i])
				last = i + 1
			}
		}
	}
	out = append(out, s[last:])
	return out
}

func parseGhostUpdate(s string) (GhostUpdate, error) {
	// target = value ; target is ident or ident[expr]
	d := 0
	for i := 0; i < len(s); i++ {
		switch s[i] {
		case '(', '[':
			d++
		case ')', ']':
			d--
		case '=':
			if d == 0 && (i+1 >= len(s) || s[i+1] != '=') && (i == 0 || (s[i-1] != '=' && s[i-1] != '!' && s[i-1] != '<' && s[i-1] != '>')) {
				t, err := parseExpr(s[:i])
				if err != nil {
					return GhostUpdate{}, err
				}
				v, err := parseExpr(s[i+1:])
				if err != nil {
					return GhostUpdate{}, err
				}
				return GhostUpdate{Target: t, Value: v, Text: strings.TrimSpace(s)}, nil
			}
		}
	}
	return GhostUpdate{}, fmt.Errorf("ghost update needs 'target = value'")
}

// ---------------------------------------------------------------- lexer

type tok struct {
	k string // "id","int","str","op","eof"
	v string
}

func lex(s string) ([]tok, error) {
	var out []tok
	i := 0
	for i < len(s) {
		c := s[i]
		switch {
		case c == ' ' || c == '\t':
			i++
		case unicode.IsLetter(rune(c)) || c == '_':
			j := i
			for j < len(s) && (unicode.IsLetter(rune(s[j])) || unicode.IsDigit(rune(s[j])) || s[j] == '_' || s[j] == '$') {
				j++
			}
			out = append(out, tok{"id", s[i:j]})
			i = j
		case c >= '0' && c <= '9':
			j := i
			for j < len(s) && ((s[j] >= '0' && s[j] <= '9') || s[j] == '.') {
				// stop at ".." or ".(" style: only allow one dot followed by digit
				if s[j] == '.' && (j+1 >= len(s) || s[j+1] < '0' || s[j+1] > '9') {
					break
				}
				j++
			}
			out = append(out, tok{"int", s[i:j]})
			i = j
		case c == '"':
			j := i + 1
			for j < len(s) && s[j] != '"' {
				if s[j] == '\\' {
					j++
				}
				j++
			}
			if j >= len(s) {
				return nil, fmt.Errorf("unterminated string")
			}
			v, err := strconv.Unquote(s[i : j+1])
			if err != nil {
				return nil, err
			}
			out = append(out, tok{"str", v})
			i = j + 1
		default:
			ops := []string{"<==>", "==>", "::", "==", "!=", "<=", ">=", "&&", "||", ".(", "{}", "{", "}"}
			matched := false
			for _, o := range ops {
				if strings.HasPrefix(s[i:], o) {
					out = append(out, tok{"op", o})
					i += len(o)
					matched = true
					break
				}
			}
			if !matched {
				out = append(out, tok{"op", string(c)})
				i++
			}
		}
	}
	out = append(out, tok{"eof", ""})
	return out, nil
}

type parser struct {
	t []tok
	p int
}

func parseExpr(s string) (Expr, error) {
	t, err := lex(s)
	if err != nil {
		return nil, err
	}
	p := &parser{t: t}
	var e Expr
	func() {
		defer func() {
			if r := recover(); r != nil {
				if pe, ok := r.(parseErr); ok {
					err = fmt.Errorf("%s", string(pe))
					return
				}
				panic(r)
			}
		}()
		e = p.expr()
		if p.peek().k != "eof" {
			p.fail("unexpected %q", p.peek().v)
		}
	}()
	return e, err
}

type parseErr string

func (p *parser) fail(f string, a ...interface{}) {
	panic(parseErr(fmt.Sprintf(f, a...) + fmt.Sprintf(" at token %d", p.p)))
}
func (p *parser) peek() tok { return p.t[p.p] }
func (p *parser) next() tok { t := p.t[p.p]; p.p++; return t }
func (p *parser) isOp(v string) bool {
	return p.t[p.p].k == "op" && p.t[p.p].v == v
}
func (p *parser) isID(v string) bool {
	return p.t[p.p].k == "id" && p.t[p.p].v == v
}
func (p *parser) expect(v string) {
	if !p.isOp(v) {
		p.fail("expected %q, found %q", v, p.peek().v)
	}
	p.p++
}

func (p *parser) expr() Expr {
	if p.isID("forall") || p.isID("exists") {
		fa := p.next().v == "forall"
		var vars []QVar
		for {
			if p.peek().k != "id" {
				p.fail("quantifier variable expected")
			}
			n := p.next().v
			t := p.typ()
			vars = append(vars, QVar{n, t})
			if p.isOp(",") {
				p.p++
				continue
			}
			break
		}
		p.expect("::")
		var pats [][]Expr
		for p.isOp("{") {
			p.p++
			var pat []Expr
			for {
				pat = append(pat, p.expr())
				if p.isOp(",") {
					p.p++
					continue
				}
				break
			}
			p.expect("}")
			pats = append(pats, pat)
		}
		body := p.expr()
		return &EQuant{Forall: fa, Vars: vars, Body: body, Pats: pats}
	}
	return p.iff()
}

func (p *parser) iff() Expr {
	x := p.impl()
	for p.isOp("<==>") {
		p.p++
		y := p.impl()
		x = &EBinary{"<==>", x, y}
	}
	return x
}

func (p *parser) impl() Expr {
	x := p.or()
	if p.isOp("==>") {
		p.p++
		var y Expr
		if p.isID("forall") || p.isID("exists") {
			y = p.expr()
		} else {
			y = p.impl()
		}
		return &EBinary{"==>", x, y}
	}
	return x
}

func (p *parser) or() Expr {
	x := p.and()
	for p.isOp("||") {
		p.p++
		x = &EBinary{"||", x, p.and()}
	}
	return x
}

func (p *parser) and() Expr {
	x := p.cmp()
	for p.isOp("&&") {
		p.p++
		var y Expr
		if p.isID("forall") || p.isID("exists") {
			y = p.expr()
		} else {
			y = p.cmp()
		}
		x = &EBinary{"&&", x, y}
	}
	return x
}

func (p *parser) cmp() Expr {
	x := p.add()
	for {
		switch {
		case p.isOp("==") || p.isOp("!=") || p.isOp("<") || p.isOp("<=") || p.isOp(">") || p.isOp(">="):
			op := p.next().v
			x = &EBinary{op, x, p.add()}
		case p.isID("is"):
			p.p++
			x = &EIs{x, p.typ()}
		case p.isID("in"):
			p.p++
			x = &EIn{x, p.add()}
		default:
			return x
		}
	}
}

func (p *parser) add() Expr {
	x := p.mul()
	for p.isOp("+") || p.isOp("-") {
		op := p.next().v
		x = &EBinary{op, x, p.mul()}
	}
	return x
}

func (p *parser) mul() Expr {
	x := p.unary()
	for p.isOp("*") || p.isOp("/") || p.isOp("%") {
		op := p.next().v
		x = &EBinary{op, x, p.unary()}
	}
	return x
}

func (p *parser) unary() Expr {
	if p.isOp("!") {
		p.p++
		return &EUnary{"!", p.unary()}
	}
	if p.isOp("-") {
		p.p++
		return &EUnary{"-", p.unary()}
	}
	return p.postfix()
}

func (p *parser) postfix() Expr {
	x := p.primary()
	for {
		switch {
		case p.isOp(".("):
			p.p++
			t := p.typ()
			p.expect(")")
			x = &EAssert{x, t}
		case p.isOp("."):
			p.p++
			if p.peek().k != "id" {
				p.fail("field name expected")
			}
			x = &ESel{x, p.next().v}
		case p.isOp("["):
			p.p++
			if p.isOp(":") {
				p.p++
				var hi Expr
				if !p.isOp("]") {
					hi = p.expr()
				}
				p.expect("]")
				x = &ESlice{x, nil, hi}
				continue
			}
			i := p.expr()
			if p.isOp(":") {
				p.p++
				var hi Expr
				if !p.isOp("]") {
					hi = p.expr()
				}
				p.expect("]")
				x = &ESlice{x, i, hi}
				continue
			}
			p.expect("]")
			x = &EIndex{x, i}
		default:
			return x
		}
	}
}

func (p *parser) primary() Expr {
	t := p.next()
	switch t.k {
	case "int":
		return &EInt{t.v}
	case "str":
		return &EStr{t.v}
	case "id":
		switch t.v {
		case "true":
			return &EBool{true}
		case "false":
			return &EBool{false}
		case "nil":
			return &ENil{}
		case "old":
			p.expect("(")
			e := p.expr()
			p.expect(")")
			return &EOld{e}
		case "ite":
			p.expect("(")
			c := p.expr()
			p.expect(",")
			a := p.expr()
			p.expect(",")
			b := p.expr()
			p.expect(")")
			return &EIte{c, a, b}
		}
		if p.isOp("(") {
			p.p++
			var args []Expr
			for !p.isOp(")") {
				args = append(args, p.expr())
				if p.isOp(",") {
					p.p++
				}
			}
			p.expect(")")
			return &ECall{t.v, args}
		}
		return &EIdent{t.v}
	case "op":
		if t.v == "(" {
			e := p.expr()
			p.expect(")")
			return e
		}
	}
	p.fail("unexpected %q", t.v)
	return nil
}

// typ parses a Go-like type and returns its canonical text.
func (p *parser) typ() string {
	t := p.next()
	switch {
	case t.k == "op" && t.v == "*":
		return "*" + p.typ()
	case t.k == "op" && t.v == "[":
		if p.isOp("]") {
			p.p++
			return "[]" + p.typ()
		}
		n := p.next()
		if n.k != "int" {
			p.fail("array length expected")
		}
		p.expect("]")
		return "[" + n.v + "]" + p.typ()
	case t.k == "id" && t.v == "map":
		p.expect("[")
		k := p.typ()
		p.expect("]")
		return "map[" + k + "]" + p.typ()
	case t.k == "id" && (t.v == "set" || t.v == "seq") && p.isOp("["):
		p.p++
		k := p.typ()
		p.expect("]")
		return t.v + "[" + k + "]"
	case t.k == "id" && t.v == "struct":
		if p.isOp("{}") {
			p.p++
		} else {
			p.expect("{")
			p.expect("}")
		}
		return "struct{}"
	case t.k == "id" && t.v == "interface":
		if p.isOp("{}") {
			p.p++
		} else {
			p.expect("{")
			p.expect("}")
		}
		return "interface{}"
	case t.k == "id":
		name := t.v
		if p.isOp(".") && p.t[p.p+1].k == "id" {
			p.p++
			name += "." + p.next().v
		}
		return name
	}
	p.fail("type expected, found %q", t.v)
	return ""
}
