package main

// govc selftest [name...]: applies each must-fail patch of /verif/selftest to /repo, runs the property's
// check, requires a VIOLATION that names the expected obligation, and restores /repo.

import (
	"fmt"
	"os"
	"os/exec"
	"path/filepath"
	"sort"
	"strings"
)

func cmdSelftest(args []string) int {
	dir := filepath.Join(verifRoot, "selftest")
	if out, _ := exec.Command("git", "-C", repoRoot, "status", "--porcelain").Output(); strings.TrimSpace(string(out)) != "" {
		fmt.Fprintln(os.Stderr, "selftest: /repo has uncommitted changes; refusing to patch it")
		return 2
	}
	patches, _ := filepath.Glob(filepath.Join(dir, "*.patch"))
	sort.Strings(patches)
	failed := 0
	ran := 0
	for _, p := range patches {
		name := strings.TrimSuffix(filepath.Base(p), ".patch")
		if len(args) > 0 {
			sel := false
			for _, a := range args {
				if strings.Contains(name, a) {
					sel = true
				}
			}
			if !sel {
				continue
			}
		}
		exp, err := os.ReadFile(filepath.Join(dir, name+".expect"))
		if err != nil {
			fmt.Printf("SELFTEST %s: no .expect file\n", name)
			failed++
			continue
		}
		f := strings.Fields(string(exp))
		prop, want := f[0], strings.Join(f[1:], " ")
		if out, err := exec.Command("git", "-C", repoRoot, "apply", p).CombinedOutput(); err != nil {
			fmt.Printf("SELFTEST %s: patch does not apply: %s\n", name, out)
			failed++
			continue
		}
		ran++
		cmd := exec.Command(os.Args[0], "check", prop, "--tier", "quick")
		cmd.Env = append(os.Environ(), "VERIF_SELFTEST=1")
		out, _ := cmd.CombinedOutput()
		exec.Command("git", "-C", repoRoot, "checkout", "--", ".").Run()
		hit := false
		for _, l := range strings.Split(string(out), "\n") {
			if strings.HasPrefix(l, "VIOLATION property="+prop) && strings.Contains(l, want) {
				hit = true
				fmt.Printf("SELFTEST %s: detected: %s\n", name, trunc(l, 220))
				break
			}
		}
		if !hit {
			failed++
			fmt.Printf("SELFTEST %s: NOT DETECTED (wanted a VIOLATION of %s naming %q)\n%s\n", name, prop, want, tail(string(out), 1500))
		}
	}
	fmt.Printf("selftest: %d patches, %d not detected\n", ran, failed)
	if failed > 0 {
		return 1
	}
	return 0
}
