package main

// Translation of contract expressions to SMT terms.

import (
	"fmt"
	"go/constant"
	"go/types"
	"strconv"
	"strings"

	"golang.org/x/tools/go/ssa"
)

type Env struct {
	vc      *FnVC
	names   map[string]TV
	resolve func(string) (TV, bool)
	mem     *Mem
	old     *Mem
	pkg     *types.Package
	cf      *ContractFile
	loop    *Loop
	depth   int
	// parameters of the function under verification are visible unless shadowed by a local in scope (resolve) or rebound
	useParams bool
}

func (vc *FnVC) newEnv(mem, old *Mem) *Env {
	env := &Env{vc: vc, names: map[string]TV{}, mem: mem, old: old, pkg: vc.fn.Pkg.Pkg, cf: vc.cf, useParams: true}
	return env
}

func (env *Env) with(name string, tv TV) *Env {
	n := *env
	n.names = map[string]TV{}
	for k, v := range env.names {
		n.names[k] = v
	}
	n.names[name] = tv
	return &n
}

var (
	tInt    = types.Typ[types.Int]
	tBool   = types.Typ[types.Bool]
	tString = types.Typ[types.String]
	tFloat  = types.Typ[types.Float64]
	tAny    = types.NewInterfaceType(nil, nil)
)

func errf(f string, a ...interface{}) error { return fmt.Errorf(f, a...) }

func (env *Env) tr(e Expr) (TV, error) {
	enc := env.vc.e
	switch x := e.(type) {
	case *EInt:
		if strings.Contains(x.V, ".") {
			return TV{t: x.V, ty: tFloat, lit: true}, nil
		}
		return TV{t: x.V, ty: tInt, lit: true}, nil
	case *EStr:
		return TV{t: enc.strLit(x.V), ty: tString}, nil
	case *EBool:
		if x.V {
			return TV{t: "true", ty: tBool}, nil
		}
		return TV{t: "false", ty: tBool}, nil
	case *ENil:
		return TV{t: "nil", ty: types.Typ[types.UntypedNil]}, nil
	case *EIdent:
		return env.ident(x.Name)
	case *EOld:
		n := *env
		n.mem = env.old
		return n.tr(x.X)
	case *EUnary:
		v, err := env.tr(x.X)
		if err != nil {
			return TV{}, err
		}
		if x.Op == "!" {
			return TV{t: not(v.t), ty: tBool}, nil
		}
		if v.lit {
			return TV{t: app("-", v.t), ty: v.ty, lit: true}, nil
		}
		return TV{t: app("-", v.t), ty: v.ty}, nil
	case *EIte:
		c, err := env.tr(x.C)
		if err != nil {
			return TV{}, err
		}
		a, err := env.tr(x.A)
		if err != nil {
			return TV{}, err
		}
		b, err := env.tr(x.B)
		if err != nil {
			return TV{}, err
		}
		a, b = env.unify(a, b)
		return TV{t: app("ite", c.t, a.t, b.t), ty: a.ty, pure: a.pure}, nil
	case *EBinary:
		return env.binary(x)
	case *EQuant:
		n := *env
		n.names = map[string]TV{}
		for k, v := range env.names {
			n.names[k] = v
		}
		var binds []string
		for _, qv := range x.Vars {
			ty, err := env.vc.w.resolveType(env.pkg, qv.Typ)
			if err != nil {
				return TV{}, err
			}
			nm := sym("q$" + qv.Name)
			n.names[qv.Name] = TV{t: nm, ty: ty, pure: true}
			binds = append(binds, fmt.Sprintf("(%s %s)", nm, env.vc.pureSort(ty)))
		}
		body, err := n.tr(x.Body)
		if err != nil {
			return TV{}, err
		}
		q := "exists"
		if x.Forall {
			q = "forall"
		}
		bt := body.t
		if len(x.Pats) > 0 {
			var ps []string
			for _, pat := range x.Pats {
				var ts []string
				for _, pe := range pat {
					tv, err := n.tr(pe)
					if err != nil {
						return TV{}, err
					}
					ts = append(ts, tv.t)
				}
				ps = append(ps, ":pattern ("+strings.Join(ts, " ")+")")
			}
			bt = "(! " + bt + " " + strings.Join(ps, " ") + ")"
		}
		return TV{t: fmt.Sprintf("(%s (%s) %s)", q, strings.Join(binds, " "), bt), ty: tBool}, nil
	case *ESel:
		return env.sel(x)
	case *EIndex:
		return env.index(x)
	case *ESlice:
		s, err := env.tr(x.X)
		if err != nil {
			return TV{}, err
		}
		if _, ok := s.ty.Underlying().(*types.Slice); !ok {
			return TV{}, errf("slicing a non-slice in a contract")
		}
		lo, hi := "0", app("slen", s.t)
		if x.Lo != nil {
			v, err := env.tr(x.Lo)
			if err != nil {
				return TV{}, err
			}
			lo = v.t
		}
		if x.Hi != nil {
			v, err := env.tr(x.Hi)
			if err != nil {
				return TV{}, err
			}
			hi = v.t
		}
		off := app("at", app("soff", s.t), lo)
		if lo == "0" {
			off = app("soff", s.t)
		}
		return TV{t: app("mkslice", app("sref", s.t), off, app("-", hi, lo), app("-", app("scap", s.t), lo)), ty: s.ty}, nil
	case *ECall:
		return env.callExpr(x)
	case *EIs:
		v, err := env.tr(x.X)
		if err != nil {
			return TV{}, err
		}
		ty, err := env.vc.w.resolveType(env.pkg, x.Typ)
		if err != nil {
			return TV{}, err
		}
		if _, ok := v.ty.Underlying().(*types.Interface); !ok {
			return TV{}, errf("'is' needs an interface value")
		}
		env.vc.w.noteAssert(enc, ty)
		return TV{t: enc.isType(ty, v.t), ty: tBool}, nil
	case *EAssert:
		v, err := env.tr(x.X)
		if err != nil {
			return TV{}, err
		}
		ty, err := env.vc.w.resolveType(env.pkg, x.Typ)
		if err != nil {
			return TV{}, err
		}
		return TV{t: enc.fromAny(ty, v.t), ty: ty}, nil
	case *EIn:
		k, err := env.tr(x.K)
		if err != nil {
			return TV{}, err
		}
		m, err := env.tr(x.M)
		if err != nil {
			return TV{}, err
		}
		mt, ok := m.ty.Underlying().(*types.Map)
		if !ok {
			return TV{}, errf("'in' needs a map or set")
		}
		k = env.coerce(k, mt.Key())
		if m.pure {
			return TV{t: app("select", m.t, k.t), ty: tBool}, nil
		}
		d, _, _ := enc.mapComps(mt)
		return TV{t: app("select", app("select", env.mem.get(d), m.t), k.t), ty: tBool}, nil
	}
	return TV{}, errf("unsupported contract expression %T", e)
}

func (env *Env) ident(name string) (TV, error) {
	if tv, ok := env.names[name]; ok {
		return tv, nil
	}
	if env.resolve != nil {
		if tv, ok := env.resolve(name); ok {
			return tv, nil
		}
	}
	if env.useParams {
		if tv, ok := env.vc.params[name]; ok {
			return tv, nil
		}
	}
	if ty, ok := env.vc.ghostTy[name]; ok {
		return TV{t: env.mem.get("G$" + name), ty: ty, pure: true}, nil
	}
	if name == "visited" && env.loop != nil && env.loop.rangeCompName(env.vc) != "" {
		c := env.loop.rangeCompName(env.vc)
		kt := env.loop.rangeKeyType(env.vc)
		return TV{t: env.mem.get(c), ty: types.NewMap(kt, tBool), pure: true}, nil
	}
	// package-level constants and variables
	if obj := env.pkg.Scope().Lookup(name); obj != nil {
		switch o := obj.(type) {
		case *types.Const:
			switch o.Val().Kind() {
			case constant.Int:
				i, _ := constant.Int64Val(o.Val())
				return TV{t: intLit(i), ty: o.Type()}, nil
			case constant.String:
				return TV{t: env.vc.e.strLit(constant.StringVal(o.Val())), ty: o.Type()}, nil
			case constant.Bool:
				if constant.BoolVal(o.Val()) {
					return TV{t: "true", ty: tBool}, nil
				}
				return TV{t: "false", ty: tBool}, nil
			}
		case *types.Var:
			if env.vc.w.readOnlyGlobal(env.pkg.Name(), name) {
				return TV{t: env.vc.globalConst(env.pkg.Name(), name, o.Type()), ty: o.Type()}, nil
			}
			n := sym("glob$" + env.pkg.Name() + "." + name)
			env.vc.e.decl("glob:"+n, fmt.Sprintf("(declare-const %s Int)\n(assert (< %s 0))", n, n))
			comp := env.vc.e.cellComp(o.Type())
			return TV{t: app("select", env.mem.get(comp), n), ty: o.Type()}, nil
		}
	}
	return TV{}, errf("unknown identifier %q", name)
}

func (l *Loop) rangeCompName(vc *FnVC) string { return vc.loopRangeComp(l) }

func (l *Loop) rangeKeyType(vc *FnVC) types.Type { return vc.loopRangeKey(l) }

func (env *Env) sel(x *ESel) (TV, error) {
	enc := env.vc.e
	// pkg.Name: a package-level variable or constant of an imported package
	if id, ok := x.X.(*EIdent); ok {
		if _, err := env.ident(id.Name); err != nil {
			for _, imp := range env.pkg.Imports() {
				if imp.Name() != id.Name {
					continue
				}
				if obj, ok := imp.Scope().Lookup(x.Name).(*types.Var); ok {
					if env.vc.w.readOnlyGlobal(imp.Name(), x.Name) {
						return TV{t: env.vc.globalConst(imp.Name(), x.Name, obj.Type()), ty: obj.Type()}, nil
					}
					n := sym("glob$" + imp.Name() + "." + x.Name)
					enc.decl("glob:"+n, fmt.Sprintf("(declare-const %s Int)\n(assert (< %s 0))", n, n))
					return TV{t: app("select", env.mem.get(enc.cellComp(obj.Type())), n), ty: obj.Type()}, nil
				}
			}
		}
	}
	v, err := env.tr(x.X)
	if err != nil {
		return TV{}, err
	}
	ty := v.ty
	t := v.t
	if p, ok := ty.Underlying().(*types.Pointer); ok {
		ty = p.Elem()
		t = app("select", env.mem.get(enc.cellComp(ty)), t)
	}
	st, ok := ty.Underlying().(*types.Struct)
	if !ok {
		return TV{}, errf("selector .%s on non-struct %s", x.Name, v.ty)
	}
	si := enc.structOf(ty)
	for i := 0; i < st.NumFields(); i++ {
		if st.Field(i).Name() == x.Name {
			return TV{t: app(si.fields[i], t), ty: st.Field(i).Type()}, nil
		}
	}
	// promoted fields through embedded structs (one level)
	for i := 0; i < st.NumFields(); i++ {
		f := st.Field(i)
		if !f.Embedded() {
			continue
		}
		inner := f.Type()
		it := app(si.fields[i], t)
		if p, ok := inner.Underlying().(*types.Pointer); ok {
			inner = p.Elem()
			it = app("select", env.mem.get(enc.cellComp(inner)), it)
		}
		if ist, ok := inner.Underlying().(*types.Struct); ok {
			isi := enc.structOf(inner)
			for j := 0; j < ist.NumFields(); j++ {
				if ist.Field(j).Name() == x.Name {
					return TV{t: app(isi.fields[j], it), ty: ist.Field(j).Type()}, nil
				}
			}
		}
	}
	return TV{}, errf("no field %s in %s", x.Name, ty)
}

func (env *Env) index(x *EIndex) (TV, error) {
	enc := env.vc.e
	v, err := env.tr(x.X)
	if err != nil {
		return TV{}, err
	}
	i, err := env.tr(x.I)
	if err != nil {
		return TV{}, err
	}
	switch u := v.ty.Underlying().(type) {
	case *types.Slice:
		comp := enc.arrComp(u.Elem())
		return TV{t: app("select", app("select", env.mem.get(comp), app("sref", v.t)), app("at", app("soff", v.t), i.t)), ty: u.Elem()}, nil
	case *types.Array:
		return TV{t: app("select", v.t, i.t), ty: u.Elem()}, nil
	case *types.Map:
		i = env.coerce(i, u.Key())
		if v.pure {
			return TV{t: app("select", v.t, i.t), ty: u.Elem(), pure: true}, nil
		}
		d, vl, _ := enc.mapComps(u)
		has := app("select", app("select", env.mem.get(d), v.t), i.t)
		return TV{t: app("ite", has, app("select", app("select", env.mem.get(vl), v.t), i.t), enc.zero(u.Elem())), ty: u.Elem()}, nil
	case *types.Pointer:
		if at, ok := u.Elem().Underlying().(*types.Array); ok {
			comp := enc.arrComp(at.Elem())
			return TV{t: app("select", app("select", env.mem.get(comp), v.t), i.t), ty: at.Elem()}, nil
		}
	}
	return TV{}, errf("cannot index %s", v.ty)
}

// coerce adapts an untyped literal / concrete value to an expected type (e.g. string key into interface{} map).
func (env *Env) coerce(v TV, want types.Type) TV {
	if _, isIface := want.Underlying().(*types.Interface); isIface {
		if _, already := v.ty.Underlying().(*types.Interface); !already && v.t != "nil" {
			return TV{t: env.vc.e.toAny(v.ty, v.t), ty: want}
		}
	}
	if v.t == "nil" {
		return TV{t: env.vc.e.zero(want), ty: want}
	}
	if v.lit && env.vc.e.sortOf(want) == "Real" && !strings.Contains(v.t, ".") {
		return TV{t: toRealLit(v.t), ty: want}
	}
	return v
}

func toRealLit(t string) string {
	if strings.HasPrefix(t, "(- ") {
		return "(- " + strings.TrimSuffix(t[3:], ")") + ".0)"
	}
	return t + ".0"
}

func (env *Env) unify(a, b TV) (TV, TV) {
	if a.t == "nil" && b.t != "nil" {
		return env.coerce(a, b.ty), b
	}
	if b.t == "nil" && a.t != "nil" {
		return a, env.coerce(b, a.ty)
	}
	sa, sb := env.vc.pureSortTV(a), env.vc.pureSortTV(b)
	if sa == sb {
		return a, b
	}
	if sa == "Any" {
		return a, env.coerce(b, a.ty)
	}
	if sb == "Any" {
		return env.coerce(a, b.ty), b
	}
	if sa == "Real" && sb == "Int" {
		if b.lit {
			return a, TV{t: toRealLit(b.t), ty: a.ty}
		}
		return a, TV{t: app("to_real", b.t), ty: a.ty}
	}
	if sb == "Real" && sa == "Int" {
		if a.lit {
			return TV{t: toRealLit(a.t), ty: b.ty}, b
		}
		return TV{t: app("to_real", a.t), ty: b.ty}, b
	}
	return a, b
}

func (vc *FnVC) pureSortTV(v TV) string {
	if v.t == "nil" {
		return "nil"
	}
	if v.pure {
		return vc.pureSort(v.ty)
	}
	return vc.e.sortOf(v.ty)
}

func (env *Env) binary(x *EBinary) (TV, error) {
	a, err := env.tr(x.X)
	if err != nil {
		return TV{}, err
	}
	b, err := env.tr(x.Y)
	if err != nil {
		return TV{}, err
	}
	switch x.Op {
	case "&&":
		return TV{t: and(a.t, b.t), ty: tBool}, nil
	case "||":
		return TV{t: or(a.t, b.t), ty: tBool}, nil
	case "==>":
		return TV{t: implies(a.t, b.t), ty: tBool}, nil
	case "<==>":
		return TV{t: app("=", a.t, b.t), ty: tBool}, nil
	}
	a, b = env.unify(a, b)
	sort := env.vc.pureSortTV(a)
	switch x.Op {
	case "==", "!=":
		var r Term
		if _, isSlice := a.ty.Underlying().(*types.Slice); isSlice && !a.pure && (b.t == "(mkslice 0 0 0 0)" || a.t == "(mkslice 0 0 0 0)") {
			o := a
			if a.t == "(mkslice 0 0 0 0)" {
				o = b
			}
			r = app("=", app("sref", o.t), "0")
		} else {
			r = app("=", a.t, b.t)
		}
		if x.Op == "!=" {
			r = not(r)
		}
		return TV{t: r, ty: tBool}, nil
	case "<", "<=", ">", ">=":
		if sort == "Str" {
			switch x.Op {
			case "<":
				return TV{t: app("strlt", a.t, b.t), ty: tBool}, nil
			case ">":
				return TV{t: app("strlt", b.t, a.t), ty: tBool}, nil
			case "<=":
				return TV{t: not(app("strlt", b.t, a.t)), ty: tBool}, nil
			default:
				return TV{t: not(app("strlt", a.t, b.t)), ty: tBool}, nil
			}
		}
		return TV{t: app(x.Op, a.t, b.t), ty: tBool}, nil
	case "+", "-", "*":
		if sort == "Str" && x.Op == "+" {
			return TV{t: app("strcat", a.t, b.t), ty: a.ty}, nil
		}
		return TV{t: app(x.Op, a.t, b.t), ty: a.ty, lit: a.lit && b.lit}, nil
	case "/":
		if sort == "Real" {
			return TV{t: app("/", a.t, b.t), ty: a.ty}, nil
		}
		return TV{t: app("goquot", a.t, b.t), ty: a.ty}, nil
	case "%":
		return TV{t: app("gorem", a.t, b.t), ty: a.ty}, nil
	}
	return TV{}, errf("operator %s", x.Op)
}

func (env *Env) callExpr(x *ECall) (TV, error) {
	enc := env.vc.e
	args := make([]TV, len(x.Args))
	evalArgs := func() error {
		for i, a := range x.Args {
			v, err := env.tr(a)
			if err != nil {
				return err
			}
			args[i] = v
		}
		return nil
	}
	switch x.Fn {
	case "isfunc":
		// isfunc(argN, "Name"): at this call site the N-th argument is, in the program text, the function, closure or
		// bound method called Name ("f", "T.m", "f$1"). A site constant: true or false. Meaningful in call-site clauses only.
		if len(x.Args) != 2 {
			return TV{}, errf("isfunc takes an argument name and a function name")
		}
		id, ok1 := x.Args[0].(*EIdent)
		want, ok2 := x.Args[1].(*EStr)
		if !ok1 || !ok2 || !strings.HasPrefix(id.Name, "arg") {
			return TV{}, errf("isfunc takes an argument name (argN) and a function name")
		}
		n, err := strconv.Atoi(id.Name[3:])
		if err != nil {
			return TV{}, errf("isfunc: %s is not an argument name", id.Name)
		}
		vc := env.vc
		if vc.curBlock == nil || vc.curIdx >= len(vc.curBlock.Instrs) {
			return TV{}, errf("isfunc(...) outside a call-site clause")
		}
		ci, ok := vc.curBlock.Instrs[vc.curIdx].(ssa.CallInstruction)
		if !ok {
			return TV{}, errf("isfunc(...) outside a call-site clause")
		}
		common := ci.Common()
		var v ssa.Value
		if common.IsInvoke() {
			if n == 0 {
				v = common.Value
			} else if n-1 < len(common.Args) {
				v = common.Args[n-1]
			}
		} else if n < len(common.Args) {
			v = common.Args[n]
		}
		if v == nil {
			return TV{}, errf("isfunc: the call has no argument %s", id.Name)
		}
		if staticFuncName(v) == want.V {
			return TV{t: "true", ty: tBool}, nil
		}
		return TV{t: "false", ty: tBool}, nil
	case "held":
		// held(Type.mu): at this site a mutex `mu` of some object of struct type Type is certainly held (must-hold lockset
		// dataflow, the same analysis as the guarded_by obligations). Meaningful in call-site clauses only.
		if len(x.Args) != 1 {
			return TV{}, errf("held takes one argument of the form Type.mu")
		}
		sel, ok := x.Args[0].(*ESel)
		if !ok {
			return TV{}, errf("held takes one argument of the form Type.mu")
		}
		id, ok := sel.X.(*EIdent)
		if !ok {
			return TV{}, errf("held takes one argument of the form Type.mu")
		}
		vc := env.vc
		if vc.curBlock == nil {
			return TV{}, errf("held(...) outside a call-site clause")
		}
		var cf *ContractFile
		if vc.fn.Pkg != nil {
			cf = vc.w.contracts[vc.fn.Pkg.Pkg.Path()]
		}
		if heldAt(cf, vc.fn, vc.curBlock, vc.curIdx, "<"+id.Name+"."+sel.Name+">") {
			return TV{t: "true", ty: tBool}, nil
		}
		return TV{t: "false", ty: tBool}, nil
	case "len", "cap":
		if err := evalArgs(); err != nil {
			return TV{}, err
		}
		if len(args) != 1 {
			return TV{}, errf("%s takes one argument", x.Fn)
		}
		v := args[0]
		switch u := v.ty.Underlying().(type) {
		case *types.Slice:
			if x.Fn == "cap" {
				return TV{t: app("scap", v.t), ty: tInt}, nil
			}
			return TV{t: app("slen", v.t), ty: tInt}, nil
		case *types.Map:
			if v.pure {
				return TV{}, errf("len of a ghost map")
			}
			d, _, l := enc.mapComps(u)
			ln := app("select", env.mem.get(l), v.t)
			if !strings.Contains(v.t, "q$") {
				// a fact about every map state: len >= 0, and len == 0 iff the domain is empty
				env.vc.assume("true", env.vc.mapLenWF(u, d, ln, v.t, env.mem))
			}
			return TV{t: ln, ty: tInt}, nil
		case *types.Basic:
			return TV{t: app("strlen", v.t), ty: tInt}, nil
		case *types.Array:
			return TV{t: fmt.Sprint(u.Len()), ty: tInt}, nil
		}
		return TV{}, errf("len of %s", v.ty)
	case "fresh":
		// fresh(p): p was allocated by this call
		if err := evalArgs(); err != nil {
			return TV{}, err
		}
		v := args[0]
		t := v.t
		if _, ok := v.ty.Underlying().(*types.Slice); ok {
			t = app("sref", t)
		}
		return TV{t: app(">=", t, env.old.get(nextComp)), ty: tBool}, nil
	case "allocated":
		// allocated(p): p is nil or an object that exists in the current state
		if err := evalArgs(); err != nil {
			return TV{}, err
		}
		v := args[0]
		t := v.t
		if _, ok := v.ty.Underlying().(*types.Slice); ok {
			t = app("sref", t)
		}
		return TV{t: and(app("<=", "0", t), app("<", t, env.mem.get(nextComp))), ty: tBool}, nil
	case "deref":
		if err := evalArgs(); err != nil {
			return TV{}, err
		}
		p, ok := args[0].ty.Underlying().(*types.Pointer)
		if !ok {
			return TV{}, errf("deref of non-pointer %s", args[0].ty)
		}
		return TV{t: app("select", env.mem.get(enc.cellComp(p.Elem())), args[0].t), ty: p.Elem()}, nil
	case "constmap":
		// constmap(m, v): the ghost map of m's type that maps every key to v
		if err := evalArgs(); err != nil {
			return TV{}, err
		}
		mt, ok := args[0].ty.Underlying().(*types.Map)
		if !ok || !args[0].pure {
			return TV{}, errf("constmap needs a ghost map")
		}
		v := env.coerce(args[1], mt.Elem())
		return TV{t: fmt.Sprintf("((as const %s) %s)", env.vc.pureSort(args[0].ty), v.t), ty: args[0].ty, pure: true}, nil
	case "comparable":
		if err := evalArgs(); err != nil {
			return TV{}, err
		}
		return TV{t: not(app("uncomparable", app("tagof", args[0].t))), ty: tBool}, nil
	case "tagof":
		if err := evalArgs(); err != nil {
			return TV{}, err
		}
		return TV{t: app("tagof", args[0].t), ty: tInt}, nil
	case "isint":
		if err := evalArgs(); err != nil {
			return TV{}, err
		}
		return TV{t: app("is_int", args[0].t), ty: tBool}, nil
	case "toint":
		if err := evalArgs(); err != nil {
			return TV{}, err
		}
		return TV{t: app("to_int", args[0].t), ty: tInt}, nil
	case "toreal":
		if err := evalArgs(); err != nil {
			return TV{}, err
		}
		if args[0].lit {
			return TV{t: toRealLit(args[0].t), ty: tFloat}, nil
		}
		return TV{t: app("to_real", args[0].t), ty: tFloat}, nil
	case "any":
		// any(x): x boxed as interface{}
		if err := evalArgs(); err != nil {
			return TV{}, err
		}
		return env.coerce(args[0], tAny), nil
	case "addr":
		// addr(p.f): the first-class pointer &p.f to a by-value field of *p (the encoding addrValue gives a FieldAddr)
		if len(x.Args) != 1 {
			return TV{}, errf("addr takes one argument")
		}
		sl, ok := x.Args[0].(*ESel)
		if !ok {
			return TV{}, errf("addr needs a field selection p.f")
		}
		base, err := env.tr(sl.X)
		if err != nil {
			return TV{}, err
		}
		pt, ok := base.ty.Underlying().(*types.Pointer)
		if !ok {
			return TV{}, errf("addr(p.f): p must be a pointer to a struct")
		}
		st, ok := pt.Elem().Underlying().(*types.Struct)
		if !ok {
			return TV{}, errf("addr(p.f): p must be a pointer to a struct")
		}
		for i := 0; i < st.NumFields(); i++ {
			if st.Field(i).Name() == sl.Name {
				f := sym("sub$" + enc.typeKey(pt.Elem()) + "$" + sl.Name)
				if _, ok := enc.subIdx[f]; !ok {
					enc.subIdx[f] = len(enc.subIdx) + 1
				}
				enc.decl("sub:"+f, fmt.Sprintf("(define-fun %s ((r Int)) Int (- (- (* r 1024)) %d))", f, enc.subIdx[f]))
				return TV{t: app(f, base.t), ty: types.NewPointer(st.Field(i).Type())}, nil
			}
		}
		return TV{}, errf("addr: no field %s", sl.Name)
	case "reflectValueOf", "reflectKind", "reflectIsNil", "reflectIsValid", "reflectLen":
		// the uninterpreted functions that stand for the reflect library calls of the same name in function bodies
		// (pureCall): lets a contract speak about reflect.ValueOf(x).Kind() etc.
		if err := evalArgs(); err != nil {
			return TV{}, err
		}
		if len(args) != 1 {
			return TV{}, errf("%s takes one argument", x.Fn)
		}
		rp := env.vc.w.prog.ImportedPackage("reflect")
		if rp == nil {
			return TV{}, errf("%s: package reflect not loaded", x.Fn)
		}
		valT := rp.Pkg.Scope().Lookup("Value").Type()
		valSort := enc.sortOf(valT)
		uf := func(full string, argSort, resSort string, a Term) Term {
			f := sym(fmt.Sprintf("uf$%s$%d$%s", full, 0, argSort))
			enc.decl("uf:"+f, fmt.Sprintf("(declare-fun %s (%s) %s)", f, argSort, resSort))
			return app(f, a)
		}
		if x.Fn == "reflectValueOf" {
			a := env.coerce(args[0], tAny)
			return TV{t: uf("reflect.ValueOf", "Any", valSort, a.t), ty: valT}, nil
		}
		if enc.sortOf(args[0].ty) != valSort {
			return TV{}, errf("%s: argument must be a reflect.Value", x.Fn)
		}
		switch x.Fn {
		case "reflectKind":
			return TV{t: uf("(reflect.Value).Kind", valSort, "Int", args[0].t), ty: tInt}, nil
		case "reflectIsNil":
			return TV{t: uf("(reflect.Value).IsNil", valSort, "Bool", args[0].t), ty: tBool}, nil
		case "reflectIsValid":
			return TV{t: uf("(reflect.Value).IsValid", valSort, "Bool", args[0].t), ty: tBool}, nil
		default:
			return TV{t: uf("(reflect.Value).Len", valSort, "Int", args[0].t), ty: tInt}, nil
		}
	case "sameheap":
		// sameheap(T): component of type T unchanged since entry (for old objects)
		return TV{}, errf("sameheap not implemented")
	}
	// user predicate: inline
	var pd *PredDef
	if env.cf != nil {
		pd = env.cf.Preds[x.Fn]
	}
	if pd == nil {
		pd = env.vc.w.findPred(x.Fn)
	}
	if pd == nil {
		return TV{}, errf("unknown function or predicate %q", x.Fn)
	}
	if len(pd.Params) != len(x.Args) {
		return TV{}, errf("predicate %s: %d arguments expected", x.Fn, len(pd.Params))
	}
	if env.depth > 8 {
		return TV{}, errf("predicate %s: recursion not supported", x.Fn)
	}
	if err := evalArgs(); err != nil {
		return TV{}, err
	}
	if pd.Abstract {
		var sorts, ts []string
		for i, p := range pd.Params {
			ty, err := env.vc.w.resolveType(env.pkg, p.Typ)
			if err != nil {
				return TV{}, err
			}
			a := env.coerce(args[i], ty)
			sorts = append(sorts, env.vc.pureSort(ty))
			ts = append(ts, a.t)
		}
		f := sym("upred$" + pd.Name)
		enc.decl("upred:"+pd.Name, fmt.Sprintf("(declare-fun %s (%s) Bool)", f, strings.Join(sorts, " ")))
		return TV{t: app(f, ts...), ty: tBool}, nil
	}
	n := *env
	n.depth++
	n.resolve = nil
	n.useParams = false
	n.names = map[string]TV{}
	for i, p := range pd.Params {
		ty, err := env.vc.w.resolveType(env.pkg, p.Typ)
		if err != nil {
			return TV{}, err
		}
		a := env.coerce(args[i], ty)
		if a.ty == nil || a.t == "nil" {
			a = TV{t: enc.zero(ty), ty: ty}
		}
		a.ty = ty
		if _, isMap := ty.Underlying().(*types.Map); isMap && args[i].pure {
			a.pure = true
		}
		n.names[p.Name] = a
	}
	return n.tr(pd.Body)
}

// staticFuncName: the name of the function a value denotes in the program text ("" when it is not a function constant,
// closure or bound method).
func staticFuncName(v ssa.Value) string {
	switch x := v.(type) {
	case *ssa.ChangeType:
		return staticFuncName(x.X)
	case *ssa.Function:
		return funcDisplayName(x)
	case *ssa.MakeClosure:
		if f, ok := x.Fn.(*ssa.Function); ok {
			return funcDisplayName(f)
		}
	}
	return ""
}

func funcDisplayName(f *ssa.Function) string {
	if strings.HasSuffix(f.Name(), "$bound") || strings.HasSuffix(f.Name(), "$thunk") {
		if obj, ok := f.Object().(*types.Func); ok {
			if sig, ok := obj.Type().(*types.Signature); ok && sig.Recv() != nil {
				t := sig.Recv().Type()
				if p, ok := t.(*types.Pointer); ok {
					t = p.Elem()
				}
				if n, ok := t.(*types.Named); ok {
					return n.Obj().Name() + "." + obj.Name()
				}
			}
			return obj.Name()
		}
	}
	return shortFuncName(f)
}
