package main

import (
	"fmt"
	"go/token"
	"go/types"
	"strings"

	"golang.org/x/tools/go/ssa"
)

func (vc *FnVC) setVal(v ssa.Value, t Term) {
	sort := vc.e.sortOf(v.Type())
	vc.vals[v] = vc.define(v.Name(), sort, t)
	if sort == "Slice" {
		vc.assumeLoaded(vc.vals[v], v.Type())
	}
}

func (vc *FnVC) b() Term { return vc.blockLit[vc.curBlock] }

func (vc *FnVC) instr(in ssa.Instruction) {
	switch x := in.(type) {
	case *ssa.DebugRef:
		return
	case *ssa.Phi:
		if vc.loopOf[vc.curBlock] != nil {
			return // header phis were havoc'd in enterLoop
		}
		b := vc.curBlock
		var t Term
		first := true
		for i := len(b.Preds) - 1; i >= 0; i-- {
			p := b.Preds[i]
			if _, done := vc.blockLit[p]; !done {
				continue
			}
			v := vc.val(x.Edges[i])
			if first {
				t = v
				first = false
			} else {
				t = app("ite", vc.edgeLit(p, b), v, t)
			}
		}
		if first {
			t = vc.e.zero(x.Type())
		}
		vc.setVal(x, t)
	case *ssa.BinOp:
		vc.binop(x)
	case *ssa.UnOp:
		vc.unop(x)
	case *ssa.Alloc:
		vc.alloc(x)
	case *ssa.Store:
		vc.nilCheckAddr(x.Addr, x.Pos())
		lv := vc.lvOf(x.Addr)
		vc.cur = vc.storeLV(lv, vc.cur, vc.val(x.Val))
	case *ssa.FieldAddr:
		// lazily handled by lvOf; nil check (addresses derived from other addresses are never nil)
		switch x.X.(type) {
		case *ssa.FieldAddr, *ssa.IndexAddr, *ssa.Alloc:
		default:
			vc.safety("nil", app("not", app("=", vc.val(x.X), "0")), x.Pos(), "field address of nil pointer")
		}
	case *ssa.IndexAddr:
		idx := vc.val(x.Index)
		switch xt := x.X.Type().Underlying().(type) {
		case *types.Slice:
			s := vc.val(x.X)
			vc.safety("index", and(app("<=", "0", idx), app("<", idx, app("slen", s))), x.Pos(), "slice index in range")
		case *types.Pointer:
			at := xt.Elem().Underlying().(*types.Array)
			vc.safety("nil", app("not", app("=", vc.val(x.X), "0")), x.Pos(), "index of nil array pointer")
			if _, isConst := x.Index.(*ssa.Const); !isConst {
				vc.safety("index", and(app("<=", "0", idx), app("<", idx, fmt.Sprint(at.Len()))), x.Pos(), "array index in range")
			}
		}
	case *ssa.Field:
		si := vc.e.structOf(x.X.Type())
		vc.setVal(x, app(si.fields[x.Field], vc.val(x.X)))
	case *ssa.Index:
		switch xt := x.X.Type().Underlying().(type) {
		case *types.Array:
			idx := vc.val(x.Index)
			vc.safety("index", and(app("<=", "0", idx), app("<", idx, fmt.Sprint(xt.Len()))), x.Pos(), "array index in range")
			vc.setVal(x, app("select", vc.val(x.X), idx))
		default:
			// string index: byte value uninterpreted
			idx := vc.val(x.Index)
			vc.safety("index", and(app("<=", "0", idx), app("<", idx, app("strlen", vc.val(x.X)))), x.Pos(), "string index in range")
			vc.e.decl("strbyte", "(declare-fun strbyte (Str Int) Int)")
			vc.setVal(x, app("strbyte", vc.val(x.X), idx))
		}
	case *ssa.Slice:
		vc.sliceOp(x)
	case *ssa.MakeSlice:
		et := x.Type().Underlying().(*types.Slice).Elem()
		ln, cp := vc.val(x.Len), vc.val(x.Cap)
		vc.safety("makeslice", and(app("<=", "0", ln), app("<=", ln, cp)), x.Pos(), "make: 0 <= len <= cap")
		r := vc.newRef()
		comp := vc.e.arrComp(et)
		zarr := vc.e.constArray("Int", et)
		vc.cur = vc.cur.update(comp, app("store", vc.cur.get(comp), r, zarr))
		vc.setVal(x, app("mkslice", r, "0", ln, cp))
	case *ssa.MakeMap:
		mt := x.Type().Underlying().(*types.Map)
		r := vc.newRef()
		d, _, l := vc.e.mapComps(mt)
		vc.cur = vc.cur.update(d, app("store", vc.cur.get(d), r, fmt.Sprintf("((as const (Array %s Bool)) false)", vc.e.sortOf(mt.Key()))))
		vc.cur = vc.cur.update(l, app("store", vc.cur.get(l), r, "0"))
		vc.setVal(x, r)
	case *ssa.MakeChan:
		vc.setVal(x, vc.newRef())
	case *ssa.MakeInterface:
		// where `nonnil elem T` is relied on for interface payloads, storing a T into an interface must not create a typed nil
		if vc.cf != nil && vc.e.sortOf(x.X.Type()) == "Int" && isRefType(x.X.Type()) {
			for _, n := range vc.cf.NonNil {
				if n == "elem "+vc.e.typeKey(x.X.Type()) {
					vc.safety("typednil", not(app("=", vc.val(x.X), "0")), x.Pos(), "a nil "+vc.e.typeKey(x.X.Type())+" must not be wrapped in an interface")
				}
			}
		}
		vc.w.noteIfaceUse(vc.e, x.X.Type())
		vc.setVal(x, vc.e.toAny(x.X.Type(), vc.val(x.X)))
	case *ssa.MakeClosure:
		vc.closures[x] = x
		r := vc.newRef()
		vc.setVal(x, r)
	case *ssa.ChangeInterface:
		vc.setVal(x, vc.val(x.X))
	case *ssa.ChangeType:
		vc.setVal(x, vc.val(x.X))
	case *ssa.Convert:
		vc.convert(x)
	case *ssa.SliceToArrayPointer:
		panic(unsupported{"slice to array pointer conversion"})
	case *ssa.TypeAssert:
		vc.typeAssert(x)
	case *ssa.Extract:
		tup, ok := vc.tuples[x.Tuple]
		if !ok {
			panic(unsupported{fmt.Sprintf("extract from unknown tuple %s", x.Tuple.Name())})
		}
		vc.vals[x] = tup[x.Index]
	case *ssa.Lookup:
		vc.lookup(x)
	case *ssa.MapUpdate:
		mt := x.Map.Type().Underlying().(*types.Map)
		m, k, v := vc.val(x.Map), vc.val(x.Key), vc.val(x.Value)
		vc.mapSite("mapupdate", x.Map, []TV{{t: m, ty: x.Map.Type()}, {t: k, ty: x.Key.Type()}, {t: v, ty: x.Value.Type()}}, x.Pos())
		defer vc.mapSiteDone()
		vc.safety("mapwrite", app("not", app("=", m, "0")), x.Pos(), "assignment to entry in nil map")
		d, vl, l := vc.e.mapComps(mt)
		had := app("select", app("select", vc.cur.get(d), m), k)
		newLen := app("ite", had, app("select", vc.cur.get(l), m), app("+", app("select", vc.cur.get(l), m), "1"))
		nl := vc.cur.update(l, app("store", vc.cur.get(l), m, newLen))
		nd := nl.update(d, app("store", vc.cur.get(d), m, app("store", app("select", vc.cur.get(d), m), k, "true")))
		vc.cur = nd.update(vl, app("store", vc.cur.get(vl), m, app("store", app("select", vc.cur.get(vl), m), k, v)))
	case *ssa.Range:
		if _, ok := x.X.Type().Underlying().(*types.Map); !ok {
			panic(unsupported{"range over string"})
		}
		c := vc.rangeCompName(x)
		mt := x.X.Type().Underlying().(*types.Map)
		vc.cur = vc.cur.update(c, fmt.Sprintf("((as const (Array %s Bool)) false)", vc.e.sortOf(mt.Key())))
		vc.vals[x] = vc.val(x.X)
	case *ssa.Next:
		vc.next(x)
	case *ssa.If, *ssa.Jump:
		return
	case *ssa.Return:
		vc.ret(x)
	case *ssa.Panic:
		if vc.ct == nil || !vc.ct.MayPanic {
			n := vc.count("safety.panic")
			vc.oblige("safety", fmt.Sprintf("safety.panic#%d", n), vc.b(), "false", x.Pos(), "explicit panic unreachable")
		}
	case *ssa.Call:
		vc.call(x, x)
	case *ssa.Go:
		vc.goInstr(x)
	case *ssa.Defer:
		vc.defers = append(vc.defers, x)
	case *ssa.RunDefers:
		vc.runDefers()
	case *ssa.Send:
		// a channel send is an addressable site ("call send assert ..." / "call send ghost ...")
		vc.callOrd["send"]++
		args := []TV{{t: vc.val(x.X), ty: x.X.Type()}, {t: vc.val(x.Chan), ty: x.Chan.Type()}}
		vc.siteAsserts("send", vc.callOrd["send"], vc.cur, args, x.Pos())
		vc.cur = vc.applyCallGhostsX("send", args, nil, vc.cur, nil)
	case *ssa.Select:
		vc.selectInstr(x)
	default:
		panic(unsupported{fmt.Sprintf("instruction %T (%s)", in, in)})
	}
}

func (vc *FnVC) newRef() Term {
	n := vc.cur.get(nextComp)
	r := vc.define(vc.e.fresh("ref"), "Int", n)
	vc.cur = vc.cur.update(nextComp, app("+", n, "1"))
	return r
}

func (vc *FnVC) alloc(x *ssa.Alloc) {
	t := x.Type().Underlying().(*types.Pointer).Elem()
	r := vc.newRef()
	vc.vals[x] = r
	if at, ok := t.Underlying().(*types.Array); ok && vc.private[x] == "" {
		comp := vc.e.arrComp(at.Elem())
		zarr := vc.e.constArray("Int", at.Elem())
		vc.cur = vc.cur.update(comp, app("store", vc.cur.get(comp), r, zarr))
		return
	}
	comp := vc.lvOf0(x)
	vc.cur = vc.cur.update(comp, app("store", vc.cur.get(comp), r, vc.e.zero(t)))
}

func (vc *FnVC) nilCheckAddr(p ssa.Value, pos token.Pos) {
	switch p.(type) {
	case *ssa.FieldAddr, *ssa.IndexAddr, *ssa.Alloc, *ssa.Global:
		return // checked where the address was formed / never nil
	}
	vc.safety("nil", app("not", app("=", vc.val(p), "0")), pos, "nil pointer dereference")
}

func (vc *FnVC) unop(x *ssa.UnOp) {
	switch x.Op {
	case token.MUL:
		if g, ok := x.X.(*ssa.Global); ok && vc.w.readOnlyGlobal(g.Pkg.Pkg.Name(), g.Name()) {
			// a package-level variable that is only assigned by its initialiser: every load yields the same value
			vc.vals[x] = vc.globalConst(g.Pkg.Pkg.Name(), g.Name(), x.Type())
			return
		}
		if a, ok := x.X.(*ssa.Alloc); ok {
			if sv := vc.immutableCell(a); sv != nil {
				if t, defined := vc.vals[sv]; defined || isConstOrParam(sv) {
					_ = t
					vc.vals[x] = vc.val(sv) // a variable that is assigned once (e.g. a parameter captured by a closure)
					return
				}
			}
		}
		if fv, ok := x.X.(*ssa.FreeVar); ok && immutableFreeVar(vc.fn, fv, 0) {
			// a captured variable that is assigned exactly once, by the enclosing function, before the closure is built and
			// never again by any closure: every load in this closure yields the same value
			vc.vals[x] = vc.fvConstTerm(fv)
			return
		}
		vc.nilCheckAddr(x.X, x.Pos())
		lv := vc.lvOf(x.X)
		if _, isArr := lv.typ.Underlying().(*types.Array); isArr && len(lv.steps) == 0 && strings.HasPrefix(lv.comp, "A$") {
			vc.setVal(x, app("select", vc.cur.get(lv.comp), lv.ref))
			return
		}
		vc.setVal(x, vc.loadLV(lv, vc.cur))
		vc.assumeLoaded(vc.vals[x], x.Type())
		vc.assumeNonNilField(x)
		if _, isIdx := x.X.(*ssa.IndexAddr); isIdx {
			vc.assumeNonNilElem(vc.vals[x], x.Type())
		}
		vc.e.assumption["the heap is closed under reachability: every reference read from memory, passed in or returned by a callee denotes an allocated object"] = true
	case token.NOT:
		vc.setVal(x, not(vc.val(x.X)))
	case token.SUB:
		vc.setVal(x, app("-", vc.val(x.X)))
	case token.ARROW:
		vc.callOrd["recv"]++
		vc.siteAsserts("recv", vc.callOrd["recv"], vc.cur, []TV{{t: vc.val(x.X), ty: x.X.Type()}}, x.Pos())
		vc.cur = vc.applyCallGhostsX("recv", []TV{{t: vc.val(x.X), ty: x.X.Type()}}, nil, vc.cur, nil)
		t := vc.declare(vc.e.fresh("recv"), vc.e.sortOf(x.X.Type().Underlying().(*types.Chan).Elem()))
		if x.CommaOk {
			ok := vc.declare(vc.e.fresh("recvok"), "Bool")
			vc.tuples[x] = []Term{t, ok}
		} else {
			vc.vals[x] = t
		}
	default:
		panic(unsupported{fmt.Sprintf("unary %s", x.Op)})
	}
}

func (vc *FnVC) binop(x *ssa.BinOp) {
	a, b := vc.val(x.X), vc.val(x.Y)
	t := x.X.Type()
	sort := vc.e.sortOf(t)
	var r Term
	switch x.Op {
	case token.ADD:
		if sort == "Str" {
			r = app("strcat", a, b)
		} else {
			r = app("+", a, b)
		}
	case token.SUB:
		r = app("-", a, b)
	case token.MUL:
		r = app("*", a, b)
	case token.QUO:
		if sort == "Real" {
			r = app("/", a, b)
		} else {
			vc.safety("div", app("not", app("=", b, "0")), x.Pos(), "integer division by zero")
			vc.divAxioms(a, b)
			r = app("goquot", a, b)
		}
	case token.REM:
		vc.safety("div", app("not", app("=", b, "0")), x.Pos(), "integer division by zero")
		vc.divAxioms(a, b)
		r = app("gorem", a, b)
	case token.EQL, token.NEQ:
		r = vc.equal(t, a, b, x.Pos())
		if x.Op == token.NEQ {
			r = not(r)
		}
	case token.LSS, token.LEQ, token.GTR, token.GEQ:
		op := map[token.Token]string{token.LSS: "<", token.LEQ: "<=", token.GTR: ">", token.GEQ: ">="}[x.Op]
		if sort == "Str" {
			switch x.Op {
			case token.LSS:
				vc.e.strltFacts()
				r = app("strlt", a, b)
			case token.GTR:
				vc.e.strltFacts()
				r = app("strlt", b, a)
			case token.LEQ:
				vc.e.strltFacts()
				r = not(app("strlt", b, a))
			case token.GEQ:
				vc.e.strltFacts()
				r = not(app("strlt", a, b))
			}
		} else {
			r = app(op, a, b)
		}
	case token.LAND, token.LOR:
		panic(unsupported{"short-circuit op in SSA"})
	default:
		// bit operations: uninterpreted
		f := sym("bitop$" + x.Op.String())
		vc.e.decl("bitop:"+f, fmt.Sprintf("(declare-fun %s (Int Int) Int)", f))
		r = app(f, a, b)
	}
	vc.setVal(x, r)
}

func (vc *FnVC) divAxioms(a, b Term) {
	q, r := app("goquot", a, b), app("gorem", a, b)
	vc.assume(app("not", app("=", b, "0")), and(app("=", a, app("+", app("*", b, q), r)),
		implies(and(app(">=", a, "0"), app(">", b, "0")), and(app("<=", "0", r), app("<", r, b), app(">=", q, "0")))))
}

// equal: Go == on static type t.
func (vc *FnVC) equal(t types.Type, a, b Term, pos token.Pos) Term {
	switch t.Underlying().(type) {
	case *types.Slice:
		// only comparison with nil is legal
		if a == "(mkslice 0 0 0 0)" {
			return app("=", app("sref", b), "0")
		}
		return app("=", app("sref", a), "0")
	case *types.Interface:
		if a != "anil" && b != "anil" {
			// comparing two interface values panics if both hold the same uncomparable type
			vc.safety("ifacecmp", not(and(app("=", app("tagof", a), app("tagof", b)), app("uncomparable", app("tagof", a)))), pos, "comparing uncomparable dynamic types")
		}
	}
	return app("=", a, b)
}

func (vc *FnVC) sliceOp(x *ssa.Slice) {
	var lo, hi Term
	if x.Low != nil {
		lo = vc.val(x.Low)
	} else {
		lo = "0"
	}
	switch xt := x.X.Type().Underlying().(type) {
	case *types.Slice:
		s := vc.val(x.X)
		if x.High != nil {
			hi = vc.val(x.High)
		} else {
			hi = app("slen", s)
		}
		mx := app("scap", s)
		if x.Max != nil {
			mx = vc.val(x.Max)
			vc.safety("slice", app("<=", mx, app("scap", s)), x.Pos(), "slice max within capacity")
		}
		vc.safety("slice", and(app("<=", "0", lo), app("<=", lo, hi), app("<=", hi, mx)), x.Pos(), "slice bounds in range")
		off := app("at", app("soff", s), lo)
		if lo == "0" {
			off = app("soff", s)
		}
		vc.setVal(x, app("mkslice", app("sref", s), off, app("-", hi, lo), app("-", mx, lo)))
	case *types.Pointer:
		at := xt.Elem().Underlying().(*types.Array)
		n := fmt.Sprint(at.Len())
		if x.High != nil {
			hi = vc.val(x.High)
		} else {
			hi = n
		}
		mx := n
		if x.Max != nil {
			mx = vc.val(x.Max)
		}
		vc.safety("slice", and(app("<=", "0", lo), app("<=", lo, hi), app("<=", hi, mx), app("<=", mx, n)), x.Pos(), "slice bounds in range")
		lv := vc.lvOf(x.X)
		if len(lv.steps) != 0 || !strings.HasPrefix(lv.comp, "A$") {
			panic(unsupported{"slice of array nested in a struct"})
		}
		vc.setVal(x, app("mkslice", lv.ref, lo, app("-", hi, lo), app("-", mx, lo)))
	default:
		// string slicing: uninterpreted
		vc.e.decl("substr", "(declare-fun substr (Str Int Int) Str)")
		s := vc.val(x.X)
		if x.High != nil {
			hi = vc.val(x.High)
		} else {
			hi = app("strlen", s)
		}
		vc.safety("slice", and(app("<=", "0", lo), app("<=", lo, hi), app("<=", hi, app("strlen", s))), x.Pos(), "string slice bounds in range")
		vc.setVal(x, app("substr", s, lo, hi))
	}
}

func (vc *FnVC) convert(x *ssa.Convert) {
	from, to := x.X.Type().Underlying(), x.Type().Underlying()
	v := vc.val(x.X)
	fs, ts := vc.e.sortOf(from), vc.e.sortOf(to)
	switch {
	case fs == "Int" && ts == "Int":
		fb, _ := from.(*types.Basic)
		tb, _ := to.(*types.Basic)
		if fb != nil && tb != nil && narrower(tb, fb) {
			// narrowing conversions wrap; modelled by an uninterpreted function that is the identity in range
			lo, hi := intRange(tb)
			f := sym("wrap$" + tb.Name())
			vc.e.decl("wrap:"+f, fmt.Sprintf("(declare-fun %s (Int) Int)\n(assert (forall ((x Int)) (! (and (<= %s (%s x)) (<= (%s x) %s) (=> (and (<= %s x) (<= x %s)) (= (%s x) x))) :pattern ((%s x)))))", f, lo, f, f, hi, lo, hi, f, f))
			vc.setVal(x, app(f, v))
			return
		}
		vc.setVal(x, v)
	case fs == "Int" && ts == "Real":
		vc.setVal(x, app("to_real", v))
	case fs == "Real" && ts == "Int":
		// Go truncates toward zero
		vc.setVal(x, app("ite", app(">=", v, "0.0"), app("to_int", v), app("-", app("to_int", app("-", v)))))
		vc.e.assumption["float64->int conversion is exact truncation (no overflow/NaN cases)"] = true
	case fs == "Real" && ts == "Real":
		vc.setVal(x, v)
	case fs == "Str" && ts == "Slice":
		f := "str2bytes"
		vc.e.decl(f, "(declare-fun str2bytes_len (Str) Int)")
		// fresh slice with unknown contents of the string's length
		et := to.(*types.Slice).Elem()
		r := vc.newRef()
		_ = vc.e.arrComp(et)
		vc.setVal(x, app("mkslice", r, "0", app("strlen", v), app("strlen", v)))
	case fs == "Slice" && ts == "Str":
		t := vc.declare(vc.e.fresh("bytes2str"), "Str")
		vc.assume("true", app("=", app("strlen", t), app("slen", v)))
		vc.vals[x] = t
	case fs == "Int" && ts == "Str":
		t := vc.declare(vc.e.fresh("rune2str"), "Str")
		vc.vals[x] = t
	case fs == ts:
		vc.setVal(x, v)
	default:
		panic(unsupported{fmt.Sprintf("conversion %s -> %s", x.X.Type(), x.Type())})
	}
}

func narrower(to, from *types.Basic) bool {
	size := func(b *types.Basic) int {
		switch b.Kind() {
		case types.Int8, types.Uint8:
			return 8
		case types.Int16, types.Uint16:
			return 16
		case types.Int32, types.Uint32:
			return 32
		case types.UntypedInt, types.UntypedRune:
			return 0
		}
		return 64
	}
	unsigned := func(b *types.Basic) bool { return b.Info()&types.IsUnsigned != 0 }
	if size(from) == 0 {
		return false
	}
	return size(to) < size(from) || (size(to) == size(from) && unsigned(to) != unsigned(from))
}

func intRange(b *types.Basic) (string, string) {
	switch b.Kind() {
	case types.Int8:
		return "(- 128)", "127"
	case types.Uint8:
		return "0", "255"
	case types.Int16:
		return "(- 32768)", "32767"
	case types.Uint16:
		return "0", "65535"
	case types.Int32:
		return "(- 2147483648)", "2147483647"
	case types.Uint32:
		return "0", "4294967295"
	case types.Uint, types.Uint64, types.Uintptr:
		return "0", "18446744073709551615"
	}
	return "(- 9223372036854775808)", "9223372036854775807"
}

func (vc *FnVC) typeAssert(x *ssa.TypeAssert) {
	a := vc.val(x.X)
	vc.w.noteAssert(vc.e, x.AssertedType)
	ok := vc.e.isType(x.AssertedType, a)
	if x.CommaOk {
		okT := vc.define(x.Name()+"$ok", "Bool", ok)
		v := vc.define(x.Name()+"$v", vc.e.sortOf(x.AssertedType), app("ite", okT, vc.e.fromAny(x.AssertedType, a), vc.e.zero(x.AssertedType)))
		vc.tuples[x] = []Term{v, okT}
		if vc.cf != nil {
			for _, n := range vc.cf.NonNil {
				if n == "elem "+vc.e.typeKey(x.AssertedType) && vc.e.sortOf(x.AssertedType) == "Int" {
					vc.assume(okT, not(app("=", v, "0")))
					vc.trustedUsed["nonnil "+n+" (trusted fact)"] = true
				}
			}
		}
		return
	}
	vc.safety("assert", ok, x.Pos(), fmt.Sprintf("type assertion to %s", x.AssertedType))
	vc.setVal(x, vc.e.fromAny(x.AssertedType, a))
	vc.assumeNonNilElem(vc.vals[x], x.AssertedType)
}

func (vc *FnVC) lookup(x *ssa.Lookup) {
	mt, ok := x.X.Type().Underlying().(*types.Map)
	if !ok {
		// string index
		idx := vc.val(x.Index)
		vc.safety("index", and(app("<=", "0", idx), app("<", idx, app("strlen", vc.val(x.X)))), x.Pos(), "string index in range")
		vc.e.decl("strbyte", "(declare-fun strbyte (Str Int) Int)")
		vc.setVal(x, app("strbyte", vc.val(x.X), idx))
		return
	}
	m, k := vc.val(x.X), vc.val(x.Index)
	d, vl, _ := vc.e.mapComps(mt)
	has := app("select", app("select", vc.cur.get(d), m), k)
	v := app("ite", has, app("select", app("select", vc.cur.get(vl), m), k), vc.e.zero(mt.Elem()))
	if !x.CommaOk && vc.cf != nil {
		for _, n := range vc.cf.NonNil {
			if n == "elem "+vc.e.typeKey(mt.Elem()) && vc.e.sortOf(mt.Elem()) == "Int" {
				vc.assume(has, not(app("=", app("select", app("select", vc.cur.get(vl), m), k), "0")))
				vc.trustedUsed["nonnil "+n+" (trusted fact)"] = true
			}
		}
	}
	if x.CommaOk {
		okT := vc.define(x.Name()+"$ok", "Bool", has)
		vT := vc.define(x.Name()+"$v", vc.e.sortOf(mt.Elem()), v)
		vc.tuples[x] = []Term{vT, okT}
		if vc.cf != nil {
			for _, n := range vc.cf.NonNil {
				if n == "elem "+vc.e.typeKey(mt.Elem()) && vc.e.sortOf(mt.Elem()) == "Int" {
					vc.assume(okT, not(app("=", vT, "0")))
					vc.trustedUsed["nonnil "+n+" (trusted fact)"] = true
				}
			}
		}
		return
	}
	vc.setVal(x, v)
}

func (vc *FnVC) next(x *ssa.Next) {
	r, ok := x.Iter.(*ssa.Range)
	if !ok || x.IsString {
		panic(unsupported{"range over string"})
	}
	mt := r.X.Type().Underlying().(*types.Map)
	c := vc.rangeCompName(r)
	m := vc.val(r.X)
	d, vl, _ := vc.e.mapComps(mt)
	ks := vc.e.sortOf(mt.Key())
	okT := vc.declare(x.Name()+"$ok", "Bool")
	k := vc.declare(x.Name()+"$k", ks)
	dom := app("select", vc.cur.get(d), m)
	vis := vc.cur.get(c)
	vc.assume(vc.b(), implies(okT, and(app("select", dom, k), not(app("select", vis, k)))))
	vc.assume(vc.b(), implies(not(okT), fmt.Sprintf("(forall ((k! %s)) (! (=> (select %s k!) (select %s k!)) :pattern ((select %s k!))))", ks, dom, vis, dom)))
	v := vc.define(x.Name()+"$v", vc.e.sortOf(mt.Elem()), app("select", app("select", vc.cur.get(vl), m), k))
	vc.cur = vc.cur.update(c, app("ite", okT, app("store", vis, k, "true"), vis))
	vc.tuples[x] = []Term{okT, k, v}
	if vc.cf != nil {
		for _, n := range vc.cf.NonNil {
			if n == "elem "+vc.e.typeKey(mt.Elem()) && vc.e.sortOf(mt.Elem()) == "Int" {
				vc.assume(okT, not(app("=", v, "0")))
				vc.trustedUsed["nonnil "+n+" (trusted fact)"] = true
			}
		}
	}
}

func (vc *FnVC) ret(x *ssa.Return) {
	vc.retN = returnOrdinal(vc.fn, x)
	if vc.ct == nil {
		return
	}
	m := vc.cur
	env := vc.newEnv(m, vc.mem0)
	env.resolve = vc.blockResolver(vc.curBlock, m) // locals in scope at this return
	for k, v := range vc.params {
		env.names[k] = v // in ensures a parameter name denotes its value on entry, even if the body reassigns or shadows it
	}
	sig := vc.fn.Signature
	for i, r := range x.Results {
		tv := TV{t: vc.val(r), ty: sig.Results().At(i).Type()}
		name := sig.Results().At(i).Name()
		if name != "" && name != "_" {
			env.names[name] = tv
		}
		if i == 0 {
			env.names["result"] = tv
		}
		env.names[fmt.Sprintf("result%d", i)] = tv
		if i == len(x.Results)-1 && types.Identical(tv.ty, types.Universe.Lookup("error").Type()) {
			if _, taken := env.names["err"]; !taken || name == "err" {
				env.names["err"] = tv
			}
		}
	}
	for _, g := range vc.ct.RetGhost {
		m = vc.applyGhost(env, g, m)
		env.mem = m
	}
	suffix := ""
	if countReturns(vc.fn) > 1 {
		suffix = fmt.Sprintf(".ret%d", vc.retN)
	}
	for k, c := range vc.ct.Ensures {
		tv, err := env.tr(c.E)
		if err != nil {
			panic(unsupported{fmt.Sprintf("ensures#%d: %v", k+1, err)})
		}
		vc.oblige("ensures", fmt.Sprintf("ensures#%d%s", k+1, suffix), vc.b(), tv.t, x.Pos(), c.Text)
	}
	if vc.ct.HasAssign {
		vc.frameObligation(m, x.Pos(), suffix)
	}
	vc.retLits = append(vc.retLits, vc.b())
}

func returnOrdinal(fn *ssa.Function, r *ssa.Return) int {
	n := 0
	for _, b := range fn.Blocks {
		for _, in := range b.Instrs {
			if x, ok := in.(*ssa.Return); ok {
				n++
				if x == r {
					return n
				}
			}
		}
	}
	return n
}

func countReturns(fn *ssa.Function) int {
	n := 0
	for _, b := range fn.Blocks {
		if b == fn.Recover {
			// counted as well: it returns
		}
		for _, in := range b.Instrs {
			if _, ok := in.(*ssa.Return); ok {
				n++
			}
		}
	}
	return n
}

// frameObligation: every component not named in assigns is unchanged on pre-existing objects.
func (vc *FnVC) frameObligation(m *Mem, pos token.Pos, suffix string) {
	allowed, all := vc.w.assignSet(vc.e, vc.fn.Pkg.Pkg, vc.ct)
	if all {
		return
	}
	next0 := vc.mem0.get(nextComp)
	var goals []Term
	var names []string
	for _, c := range sortedKeys(boolKeys(vc.e.compSort)) {
		if c == nextComp || strings.HasPrefix(c, "G$") || strings.HasPrefix(c, "R$") || strings.HasPrefix(c, "L$") || allowed[c] {
			continue
		}
		a, b := vc.mem0.get(c), m.get(c)
		if a == b {
			continue
		}
		goals = append(goals, fmt.Sprintf("(forall ((r! Int)) (=> (and (<= 0 r!) (< r! %s)) (= (select %s r!) (select %s r!))))", next0, b, a))
		names = append(names, c)
	}
	vc.oblige("assigns", "assigns"+suffix, vc.b(), and(goals...), pos, "only objects allocated by this call, or of types in the assigns clause, are written: "+strings.Join(names, ","))
}

func boolKeys(m map[string]string) map[string]bool {
	out := map[string]bool{}
	for k := range m {
		out[k] = true
	}
	return out
}

func (vc *FnVC) goInstr(x *ssa.Go) {
	name := calleeShort(x.Common())
	var args []TV
	for _, a := range x.Common().Args {
		args = append(args, TV{t: vc.val(a), ty: a.Type()})
	}
	vc.callOrd[name] = vc.siteOrdinal(x, name)
	vc.siteAsserts(name, vc.callOrd[name], vc.cur, args, x.Pos())
	vc.cur = vc.applyCallGhosts(name, args, nil, vc.cur)
}

func (vc *FnVC) regionBoundary(what string) {
	// sequential reading: channel operations do not change the heap
}

func (vc *FnVC) selectInstr(x *ssa.Select) {
	// nondeterministic choice
	idx := vc.declare(x.Name()+"$idx", "Int")
	ok := vc.declare(x.Name()+"$ok", "Bool")
	tup := []Term{idx, ok}
	for _, st := range x.States {
		if st.Dir == types.RecvOnly {
			tup = append(tup, vc.declare(vc.e.fresh("selrecv"), vc.e.sortOf(st.Chan.Type().Underlying().(*types.Chan).Elem())))
		}
	}
	lo := "0"
	if !x.Blocking {
		lo = "(- 1)"
	}
	vc.assume(vc.b(), and(app("<=", lo, idx), app("<", idx, fmt.Sprint(len(x.States)))))
	vc.tuples[x] = tup
	// a send case that is chosen is a "select.send" site, a receive case a "select.recv" site (for ghost accounting)
	for i, st := range x.States {
		name := "select.recv"
		if st.Dir == types.SendOnly {
			name = "select.send"
		}
		before := vc.cur
		args := []TV{{t: vc.val(st.Chan), ty: st.Chan.Type()}}
		after := vc.applyCallGhostsX(name, args, nil, before, nil)
		if after != before {
			chosen := app("=", idx, fmt.Sprint(i))
			vc.cur = joinMems(vc.e, vc.emit, []*Mem{after, before}, []Term{chosen, not(chosen)})
		}
	}
}

func (vc *FnVC) runDefers() {
	for i := len(vc.defers) - 1; i >= 0; i-- {
		d := vc.defers[i]
		guard := vc.blockLit[d.Block()]
		if vc.loopInner(d.Block()) {
			panic(unsupported{"defer inside a loop"})
		}
		before := vc.cur
		vc.call(d, nil)
		after := vc.cur
		if guard != "true" {
			vc.cur = joinMems(vc.e, vc.emit, []*Mem{after, before}, []Term{guard, not(guard)})
		}
	}
}

func (vc *FnVC) loopInner(b *ssa.BasicBlock) bool {
	for _, l := range vc.loops {
		if l.Blocks[b] {
			return true
		}
	}
	return false
}

// assumeLoaded: type invariants every Go value of this type satisfies (sound for values read from the heap).
func (vc *FnVC) assumeLoaded(t Term, ty types.Type) {
	switch u := ty.Underlying().(type) {
	case *types.Slice:
		vc.assume("true", and(app(">=", app("slen", t), "0"), app(">=", app("scap", t), app("slen", t)), app(">=", app("soff", t), "0"), app(">=", app("sref", t), "0"),
			app("<", app("sref", t), vc.cur.get(nextComp)),
			implies(app("=", app("sref", t), "0"), and(app("=", app("slen", t), "0"), app("=", app("scap", t), "0")))))
	case *types.Pointer, *types.Map, *types.Chan:
		vc.assume("true", and(app(">=", t, "0"), app("<", t, vc.cur.get(nextComp))))
	case *types.Interface:
		n := vc.cur.get(nextComp)
		vc.assume("true", and(implies(app("(_ is aref)", t), and(app(">=", app("arf", t), "0"), app("<", app("arf", t), n))),
			implies(app("(_ is aslice)", t), app("<", app("sref", app("aslv", t)), n))))
	case *types.Basic:
		if u.Info()&types.IsUnsigned != 0 {
			vc.assume("true", app(">=", t, "0"))
		}
	}
}

// runDefersAtRecover: the state in which the recover block starts. Every defer site of the function may have been
// registered before the panic; a site in the entry block with no call before it certainly was.
func (vc *FnVC) runDefersAtRecover() {
	var sites []*ssa.Defer
	for _, b := range vc.fn.Blocks {
		for _, in := range b.Instrs {
			if d, ok := in.(*ssa.Defer); ok {
				sites = append(sites, d)
			}
		}
	}
	for i := len(sites) - 1; i >= 0; i-- {
		d := sites[i]
		certain := d.Block() == vc.fn.Blocks[0]
		if certain {
			for _, in := range d.Block().Instrs {
				if in == ssa.Instruction(d) {
					break
				}
				if _, isCall := in.(*ssa.Call); isCall {
					certain = false
				}
			}
		}
		before := vc.cur
		vc.lastCalleeGhosts = nil
		vc.call(d, nil)
		// the recover block is only entered when a deferred call's recover() returned non-nil: with a single
		// recovering defer site, that call recovered (its ghost `recovered`, if the contract declares one, is true)
		if len(sites) == 1 {
			if g, ok := vc.lastCalleeGhosts["callee_recovered"]; ok {
				vc.assume(vc.b(), g.t)
			}
		}
		if !certain {
			g := vc.declare(vc.e.fresh("deferred"), "Bool")
			vc.cur = joinMems(vc.e, vc.emit, []*Mem{vc.cur, before}, []Term{g, not(g)})
		}
	}
}

// immutableCell: if the cell is written exactly once by this function and never by the closures that capture it,
// every load yields the stored value.
func (vc *FnVC) immutableCell(a *ssa.Alloc) ssa.Value {
	if v, ok := vc.immut[a]; ok {
		return v
	}
	var stored ssa.Value
	n := 0
	okAll := true
	if refs := a.Referrers(); refs != nil {
		for _, r := range *refs {
			switch u := r.(type) {
			case *ssa.Store:
				if u.Addr == ssa.Value(a) {
					n++
					stored = u.Val
				} else {
					okAll = false // the address itself is stored somewhere
				}
			case *ssa.UnOp, *ssa.DebugRef:
			case *ssa.MakeClosure:
				fn := u.Fn.(*ssa.Function)
				for i, b := range u.Bindings {
					if b == ssa.Value(a) && freeVarWritten(fn, i, 0) {
						okAll = false
					}
				}
			default:
				okAll = false
			}
		}
	}
	if !okAll || n != 1 {
		stored = nil
	}
	if vc.immut == nil {
		vc.immut = map[*ssa.Alloc]ssa.Value{}
	}
	vc.immut[a] = stored
	return stored
}

func (vc *FnVC) fvConstTerm(fv *ssa.FreeVar) Term {
	if vc.fvConst == nil {
		vc.fvConst = map[*ssa.FreeVar]Term{}
	}
	t, ok := vc.fvConst[fv]
	if !ok {
		ty := fv.Type().Underlying().(*types.Pointer).Elem()
		t = vc.declare("fvc$"+fv.Name(), vc.e.sortOf(ty))
		vc.fvConst[fv] = t
		vc.assumeWF(t, ty, vc.mem0)
		// it is the content of the variable's cell on entry (contracts write deref(x) for that)
		vc.assume("true", app("=", t, vc.loadLV(vc.lvOf(fv), vc.mem0)))
	}
	return t
}

// immutableFreeVar: the variable captured as fv is assigned exactly once in the function that declares it and is not
// written by any closure that captures it.
func immutableFreeVar(fn *ssa.Function, fv *ssa.FreeVar, depth int) bool {
	parent := fn.Parent()
	if parent == nil || depth > 4 {
		return false
	}
	idx := -1
	for i, f := range fn.FreeVars {
		if f == fv {
			idx = i
		}
	}
	if idx < 0 {
		return false
	}
	found := false
	for _, b := range parent.Blocks {
		for _, in := range b.Instrs {
			mc, ok := in.(*ssa.MakeClosure)
			if !ok || mc.Fn != ssa.Value(fn) {
				continue
			}
			found = true
			switch bind := mc.Bindings[idx].(type) {
			case *ssa.Alloc:
				if !allocAssignedOnce(bind) {
					return false
				}
			case *ssa.FreeVar:
				if !immutableFreeVar(parent, bind, depth+1) {
					return false
				}
			default:
				return false
			}
		}
	}
	return found
}

// allocAssignedOnce: exactly one store to the cell, its address never escapes except into closures that do not write it.
func allocAssignedOnce(a *ssa.Alloc) bool {
	n := 0
	if refs := a.Referrers(); refs != nil {
		for _, r := range *refs {
			switch u := r.(type) {
			case *ssa.Store:
				if u.Addr != ssa.Value(a) {
					return false
				}
				if storeRepeats(a.Block(), u.Block()) {
					// one store in the text, but it sits in a loop that does not re-allocate the cell (a range variable of a
					// pre-1.22 module captured by a closure): the cell is assigned once per iteration
					return false
				}
				n++
			case *ssa.UnOp, *ssa.DebugRef:
			case *ssa.MakeClosure:
				fn := u.Fn.(*ssa.Function)
				for i, b := range u.Bindings {
					if b == ssa.Value(a) && freeVarWritten(fn, i, 0) {
						return false
					}
				}
			default:
				return false
			}
		}
	}
	return n == 1
}

// storeRepeats: can the block of the store be reached again from itself without passing through the block that allocates
// the cell? (then the same cell is stored to more than once)
func storeRepeats(allocBlock, storeBlock *ssa.BasicBlock) bool {
	if allocBlock == storeBlock || allocBlock == nil || storeBlock == nil {
		return false
	}
	seen := map[*ssa.BasicBlock]bool{}
	work := append([]*ssa.BasicBlock(nil), storeBlock.Succs...)
	for len(work) > 0 {
		b := work[len(work)-1]
		work = work[:len(work)-1]
		if b == allocBlock || seen[b] {
			continue
		}
		if b == storeBlock {
			return true
		}
		seen[b] = true
		work = append(work, b.Succs...)
	}
	return false
}

func freeVarWritten(fn *ssa.Function, idx int, depth int) bool {
	if depth > 4 || idx >= len(fn.FreeVars) {
		return true
	}
	fv := fn.FreeVars[idx]
	if refs := fv.Referrers(); refs != nil {
		for _, r := range *refs {
			switch u := r.(type) {
			case *ssa.Store:
				return true
			case *ssa.UnOp, *ssa.DebugRef:
			case *ssa.MakeClosure:
				inner := u.Fn.(*ssa.Function)
				for i, b := range u.Bindings {
					if b == ssa.Value(fv) && freeVarWritten(inner, i, depth+1) {
						return true
					}
				}
			default:
				return true
			}
		}
	}
	return false
}

// assumeNonNilField: `nonnil pkg.Type.Field` declarations (trusted facts about third-party data, e.g. which AST pointers
// the graphql-go parser always sets) apply whenever that field is loaded.
func (vc *FnVC) assumeNonNilField(x *ssa.UnOp) {
	fa, ok := x.X.(*ssa.FieldAddr)
	if !ok || vc.cf == nil || len(vc.cf.NonNil) == 0 {
		return
	}
	pt, ok := fa.X.Type().Underlying().(*types.Pointer)
	if !ok {
		return
	}
	named, ok := pt.Elem().(*types.Named)
	if !ok {
		return
	}
	key := named.Obj().Pkg().Name() + "." + named.Obj().Name() + "." + pt.Elem().Underlying().(*types.Struct).Field(fa.Field).Name()
	for _, n := range vc.cf.NonNil {
		if n == key {
			t := vc.vals[x]
			if vc.e.sortOf(x.Type()) == "Any" {
				vc.assume("true", not(app("=", t, "anil")))
			} else if vc.e.sortOf(x.Type()) == "Int" {
				vc.assume("true", not(app("=", t, "0")))
			}
			vc.trustedUsed["nonnil "+key+" (trusted fact about third-party data)"] = true
		}
	}
}

// assumeNonNilElem: `nonnil elem T` declarations: values of pointer type T obtained from slice elements, map values,
// type switches/assertions and range iteration are never nil (trusted facts, e.g. the graphql-go parser never stores nil nodes).
func (vc *FnVC) assumeNonNilElem(t Term, ty types.Type) {
	if vc.cf == nil || len(vc.cf.NonNil) == 0 {
		return
	}
	key := "elem " + vc.e.typeKey(ty)
	for _, n := range vc.cf.NonNil {
		if n == key {
			if vc.e.sortOf(ty) == "Int" {
				vc.assume("true", not(app("=", t, "0")))
			} else if vc.e.sortOf(ty) == "Any" {
				vc.assume("true", not(app("=", t, "anil")))
			}
			vc.trustedUsed["nonnil "+key+" (trusted fact)"] = true
		}
	}
}

func (vc *FnVC) globalConst(pkg, name string, ty types.Type) Term {
	n := sym("gval$" + pkg + "." + name)
	vc.e.decl("gval:"+n, fmt.Sprintf("(declare-const %s %s)", n, vc.e.sortOf(ty)))
	vc.trustedUsed["readonly "+pkg+"."+name+" (assigned only by its initialiser)"] = true
	return n
}
