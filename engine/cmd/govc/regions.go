package main

// Region boundaries: re-acquiring a mutex that this function released earlier starts a new critical section;
// other threads may have changed everything the mutex guards in between, so the guarded state is havoc'd there.

import (
	"fmt"
	"go/types"
	"strings"

	"golang.org/x/tools/go/ssa"
)

func lockCallInfo(cc *ssa.CallCommon) (name string, recv ssa.Value) {
	if cc.IsInvoke() {
		return cc.Method.Name(), cc.Value
	}
	if fn, ok := cc.Value.(*ssa.Function); ok && fn.Signature.Recv() != nil && len(cc.Args) > 0 {
		return fn.Name(), cc.Args[0]
	}
	return "", nil
}

// reacquired: can an explicit Unlock of the same mutex reach this Lock call?
func (vc *FnVC) reacquired(lock *ssa.Call, key string) bool {
	lb := lock.Block()
	for _, b := range vc.fn.Blocks {
		for i, in := range b.Instrs {
			c, ok := in.(*ssa.Call)
			if !ok || c == lock {
				continue
			}
			n, recv := lockCallInfo(c.Common())
			released := false
			if n == "Unlock" || n == "RUnlock" {
				r, p, ok := mutexOf(recv)
				released = ok && lockKey(baseRoot(r), p) == key
			} else if callee, ok := c.Common().Value.(*ssa.Function); ok {
				// a callee that declares `locks p.mu` acquired and released that mutex internally
				if ct := vc.w.contractFor(callee); ct != nil {
					for _, lk := range ct.Locks {
						parts := strings.SplitN(lk, ".", 2)
						for i, prm := range callee.Params {
							if len(parts) == 2 && prm.Name() == parts[0] && i < len(c.Common().Args) {
								ar, ap := accessPath(c.Common().Args[i])
								if lockKey(baseRoot(ar), joinPath(ap, parts[1])) == key {
									released = true
								}
							}
						}
					}
				}
			}
			if !released {
				continue
			}
			if b == lb {
				for j, in2 := range b.Instrs {
					if in2 == ssa.Instruction(lock) && j > i {
						return true
					}
				}
			}
			if blockReaches(b, lb) {
				return true
			}
		}
	}
	return false
}

func blockReaches(from, to *ssa.BasicBlock) bool {
	seen := map[*ssa.BasicBlock]bool{}
	stack := append([]*ssa.BasicBlock{}, from.Succs...)
	for len(stack) > 0 {
		b := stack[len(stack)-1]
		stack = stack[:len(stack)-1]
		if seen[b] {
			continue
		}
		seen[b] = true
		if b == to {
			return true
		}
		stack = append(stack, b.Succs...)
	}
	return false
}

// lockHavoc: applied at a Lock/RLock call that re-acquires a mutex declared in a guarded_by clause.
func (vc *FnVC) lockHavoc(call *ssa.Call) {
	if vc.cf == nil || len(vc.cf.Guarded) == 0 {
		return
	}
	name, recv := lockCallInfo(call.Common())
	if name != "Lock" && name != "RLock" {
		return
	}
	root, path, ok := mutexOf(recv)
	if !ok {
		return
	}
	root = baseRoot(root)
	key := lockKey(root, path)
	if !vc.reacquired(call, key) {
		return
	}
	sn := structNameOf(root.Type())
	for _, g := range vc.cf.Guarded {
		if g.Struct != sn || g.Mutex != path {
			continue
		}
		pt, ok := root.Type().Underlying().(*types.Pointer)
		if !ok {
			continue
		}
		st, ok := pt.Elem().Underlying().(*types.Struct)
		if !ok {
			continue
		}
		si := vc.e.structOf(pt.Elem())
		comp := vc.e.cellComp(pt.Elem())
		ref := vc.val(root)
		cell := app("select", vc.cur.get(comp), ref)
		args := make([]string, len(si.fields))
		for i, sel := range si.fields {
			args[i] = app(sel, cell)
		}
		hv := map[string]bool{}
		for _, f := range g.Fields {
			for i := 0; i < st.NumFields(); i++ {
				if st.Field(i).Name() != f {
					continue
				}
				ft := st.Field(i).Type()
				args[i] = vc.declare(vc.e.fresh("relock_"+f), vc.e.sortOf(ft))
				vc.assumeLoaded(args[i], ft)
				switch u := ft.Underlying().(type) {
				case *types.Map:
					d, v, l := vc.e.mapComps(u)
					hv[d], hv[v], hv[l] = true, true, true
				case *types.Slice:
					hv[vc.e.arrComp(u.Elem())] = true
				}
			}
		}
		vc.emit(fmt.Sprintf("; re-acquired %s: state guarded by it may have been changed by other threads", key))
		vc.cur = vc.cur.update(comp, app("store", vc.cur.get(comp), ref, app(si.ctor, args...)))
		if len(hv) > 0 {
			vc.cur = vc.cur.havoc(hv, nil)
		}
		vc.trustedUsed["region model: state guarded by "+sn+"."+path+" is arbitrary again whenever the mutex is re-acquired"] = true
	}
}
