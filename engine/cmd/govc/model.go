package main

// Counterexample extraction: an interactive solver session answers get-value queries,
// and a type-directed walk rebuilds the function's inputs as JSON.

import (
	"bufio"
	"fmt"
	"go/types"
	"io"
	"os/exec"
	"sort"
	"strconv"
	"strings"
	"time"
)

type session struct {
	cmd *exec.Cmd
	in  io.WriteCloser
	out *bufio.Reader
}

func startSession(script string, timeout time.Duration) (*session, string, error) {
	cmd := exec.Command("z3-new", "-in", fmt.Sprintf("-T:%d", int(timeout.Seconds())+30))
	in, _ := cmd.StdinPipe()
	outp, _ := cmd.StdoutPipe()
	cmd.Stderr = cmd.Stdout
	if err := cmd.Start(); err != nil {
		return nil, "", err
	}
	s := &session{cmd: cmd, in: in, out: bufio.NewReader(outp)}
	io.WriteString(in, script)
	io.WriteString(in, "\n(check-sat)\n")
	line, err := s.out.ReadString('\n')
	if err != nil {
		s.close()
		return nil, "", err
	}
	return s, strings.TrimSpace(line), nil
}

func (s *session) close() {
	s.in.Close()
	done := make(chan struct{})
	go func() { s.cmd.Wait(); close(done) }()
	select {
	case <-done:
	case <-time.After(2 * time.Second):
		s.cmd.Process.Kill()
	}
}

// eval returns the model value of term as an s-expression string.
func (s *session) eval(term string) (string, error) {
	fmt.Fprintf(s.in, "(get-value (%s))\n", term)
	// read a balanced s-expression
	var b strings.Builder
	depth := 0
	started := false
	inBar := false
	for {
		c, err := s.out.ReadByte()
		if err != nil {
			return "", err
		}
		b.WriteByte(c)
		if c == '|' {
			inBar = !inBar
		}
		if inBar {
			continue
		}
		if c == '(' {
			depth++
			started = true
		} else if c == ')' {
			depth--
			if started && depth == 0 {
				break
			}
		}
	}
	txt := strings.TrimSpace(b.String())
	if strings.HasPrefix(txt, "(error") {
		return "", fmt.Errorf("%s", txt)
	}
	// ((term value)) -> value: strip the outer two parens and the echoed term
	sx, err := parseSexp(txt)
	if err != nil || len(sx.list) != 1 || len(sx.list[0].list) != 2 {
		return "", fmt.Errorf("unexpected get-value answer %q", trunc(txt, 200))
	}
	return sx.list[0].list[1].String(), nil
}

type sexp struct {
	atom string
	list []*sexp
	leaf bool
}

func (s *sexp) String() string {
	if s.leaf {
		return s.atom
	}
	parts := make([]string, len(s.list))
	for i, x := range s.list {
		parts[i] = x.String()
	}
	return "(" + strings.Join(parts, " ") + ")"
}

func parseSexp(s string) (*sexp, error) {
	pos := 0
	var parse func() (*sexp, error)
	skip := func() {
		for pos < len(s) && (s[pos] == ' ' || s[pos] == '\n' || s[pos] == '\t' || s[pos] == '\r') {
			pos++
		}
	}
	parse = func() (*sexp, error) {
		skip()
		if pos >= len(s) {
			return nil, fmt.Errorf("eof")
		}
		if s[pos] == '(' {
			pos++
			n := &sexp{}
			for {
				skip()
				if pos >= len(s) {
					return nil, fmt.Errorf("unbalanced")
				}
				if s[pos] == ')' {
					pos++
					return n, nil
				}
				c, err := parse()
				if err != nil {
					return nil, err
				}
				n.list = append(n.list, c)
			}
		}
		start := pos
		if s[pos] == '|' {
			pos++
			for pos < len(s) && s[pos] != '|' {
				pos++
			}
			pos++
		} else if s[pos] == '"' {
			pos++
			for pos < len(s) && s[pos] != '"' {
				pos++
			}
			pos++
		} else {
			for pos < len(s) && !strings.ContainsRune(" \n\t\r()", rune(s[pos])) {
				pos++
			}
		}
		return &sexp{atom: s[start:pos], leaf: true}, nil
	}
	return parse()
}

func sexpInt(s string) (int64, bool) {
	s = strings.TrimSpace(s)
	if strings.HasPrefix(s, "(-") {
		inner := strings.TrimSpace(strings.TrimSuffix(strings.TrimPrefix(s, "(-"), ")"))
		v, ok := sexpInt(inner)
		return -v, ok
	}
	if strings.HasSuffix(s, ".0") {
		s = strings.TrimSuffix(s, ".0")
	}
	v, err := strconv.ParseInt(s, 10, 64)
	return v, err == nil
}

func sexpReal(s string) (float64, bool) {
	sx, err := parseSexp(s)
	if err != nil {
		return 0, false
	}
	var ev func(x *sexp) (float64, bool)
	ev = func(x *sexp) (float64, bool) {
		if x.leaf {
			f, err := strconv.ParseFloat(x.atom, 64)
			return f, err == nil
		}
		if len(x.list) == 2 && x.list[0].atom == "-" {
			f, ok := ev(x.list[1])
			return -f, ok
		}
		if len(x.list) == 3 && x.list[0].atom == "/" {
			a, ok1 := ev(x.list[1])
			b, ok2 := ev(x.list[2])
			if ok1 && ok2 && b != 0 {
				return a / b, true
			}
		}
		return 0, false
	}
	return ev(sx)
}

// extractor walks Go types and pulls model values.
type extractor struct {
	s       *session
	vc      *FnVC
	mem     *Mem
	strVals map[string]string // model value -> literal text
	strSyn  map[string]string
	seen    map[string]bool
	budget  int
	errs    []string
}

func newExtractor(s *session, vc *FnVC, mem *Mem) *extractor {
	x := &extractor{s: s, vc: vc, mem: mem, strVals: map[string]string{}, strSyn: map[string]string{}, seen: map[string]bool{}, budget: 400}
	for lit, name := range vc.e.strlits {
		if v, err := s.eval(name); err == nil {
			if _, dup := x.strVals[v]; !dup {
				x.strVals[v] = lit
			}
		}
	}
	return x
}

func (x *extractor) str(term string) string {
	v, err := x.s.eval(term)
	if err != nil {
		return "?"
	}
	if lit, ok := x.strVals[v]; ok {
		return lit
	}
	if syn, ok := x.strSyn[v]; ok {
		return syn
	}
	syn := fmt.Sprintf("s%d", len(x.strSyn))
	x.strSyn[v] = syn
	return syn
}

func (x *extractor) int(term string) int64 {
	v, err := x.s.eval(term)
	if err != nil {
		x.errs = append(x.errs, err.Error())
		return 0
	}
	n, _ := sexpInt(v)
	return n
}

// memComp returns the model-level name of a heap component without creating new declarations.
func (x *extractor) memComp(comp string) (string, bool) {
	m := x.mem
	for m != nil {
		if t, ok := m.cache[comp]; ok {
			return t, true
		}
		if m.kind == "upd" || m.kind == "havoc" {
			m = m.parent
			continue
		}
		break
	}
	return "", false
}

func (x *extractor) value(term string, ty types.Type, depth int) interface{} {
	x.budget--
	if x.budget < 0 || depth > 6 {
		return "$truncated"
	}
	e := x.vc.e
	switch u := ty.Underlying().(type) {
	case *types.Basic:
		info := u.Info()
		switch {
		case info&types.IsBoolean != 0:
			v, _ := x.s.eval(term)
			return v == "true"
		case info&types.IsInteger != 0:
			return x.int(term)
		case info&types.IsFloat != 0:
			v, _ := x.s.eval(term)
			f, _ := sexpReal(v)
			return f
		case info&types.IsString != 0:
			return x.str(term)
		}
	case *types.Pointer:
		r := x.int(term)
		if r == 0 {
			return nil
		}
		if _, isStruct := u.Elem().Underlying().(*types.Struct); !isStruct {
			comp, ok := x.memComp(e.cellComp(u.Elem()))
			if !ok {
				return map[string]interface{}{"$ptr": r}
			}
			return map[string]interface{}{"$ptr": r, "$elem": x.value(app("select", comp, intLit(r)), u.Elem(), depth+1)}
		}
		key := fmt.Sprintf("%s@%d", e.typeKey(u.Elem()), r)
		if x.seen[key] {
			return map[string]interface{}{"$ref": r}
		}
		x.seen[key] = true
		defer delete(x.seen, key)
		comp, ok := x.memComp(e.cellComp(u.Elem()))
		if !ok {
			return map[string]interface{}{"$ptr": r}
		}
		out := x.value(app("select", comp, intLit(r)), u.Elem(), depth+1)
		if m, ok := out.(map[string]interface{}); ok {
			m["$ptr"] = r
		}
		return out
	case *types.Struct:
		si := e.structOf(ty)
		out := map[string]interface{}{}
		for i, f := range si.fnames {
			out[f] = x.value(app(si.fields[i], term), si.ftypes[i], depth+1)
		}
		return out
	case *types.Slice:
		n := x.int(app("slen", term))
		ref := x.int(app("sref", term))
		if ref == 0 {
			return nil
		}
		if n > 8 {
			n = 8
		}
		out := []interface{}{}
		comp, ok := x.memComp(e.arrComp(u.Elem()))
		if !ok {
			for i := int64(0); i < n; i++ {
				out = append(out, zeroJSON(u.Elem()))
			}
			return out
		}
		for i := int64(0); i < n; i++ {
			out = append(out, x.value(app("select", app("select", comp, app("sref", term)), app("+", app("soff", term), intLit(i))), u.Elem(), depth+1))
		}
		return out
	case *types.Array:
		out := []interface{}{}
		for i := int64(0); i < u.Len() && i < 8; i++ {
			out = append(out, x.value(app("select", term, intLit(i)), u.Elem(), depth+1))
		}
		return out
	case *types.Map:
		r := x.int(term)
		if r == 0 {
			return nil
		}
		d, vl, _ := e.mapComps(u)
		dc, ok1 := x.memComp(d)
		vcomp, ok2 := x.memComp(vl)
		out := map[string]interface{}{"$map": r}
		if !ok1 || !ok2 {
			return out
		}
		entries := map[string]interface{}{}
		if e.sortOf(u.Key()) == "Str" {
			lits := make([]string, 0, len(e.strlits))
			for l := range e.strlits {
				lits = append(lits, l)
			}
			sort.Strings(lits)
			for _, l := range lits {
				kt := e.strlits[l]
				has, _ := x.s.eval(app("select", app("select", dc, intLit(r)), kt))
				if has == "true" {
					entries[l] = x.value(app("select", app("select", vcomp, intLit(r)), kt), u.Elem(), depth+1)
				}
			}
		}
		out["entries"] = entries
		return out
	case *types.Interface:
		tag := x.int(app("tagof", term))
		if tag == 0 {
			return nil
		}
		if int(tag) < 1 || int(tag) > len(e.tagList) {
			return map[string]interface{}{"$type": fmt.Sprintf("?tag%d", tag)}
		}
		tname := e.tagList[tag-1]
		dyn := x.vc.w.typeByKey(e, tname)
		if dyn == nil {
			return map[string]interface{}{"$type": tname}
		}
		return map[string]interface{}{"$type": tname, "$value": x.value(e.fromAny(dyn, term), dyn, depth+1)}
	}
	return fmt.Sprintf("$unsupported(%s)", ty)
}

func zeroJSON(t types.Type) interface{} {
	switch u := t.Underlying().(type) {
	case *types.Basic:
		switch {
		case u.Info()&types.IsBoolean != 0:
			return false
		case u.Info()&types.IsString != 0:
			return ""
		}
		return 0
	}
	return nil
}
