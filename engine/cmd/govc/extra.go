package main

import (
	"fmt"
	"go/types"
)

func lemmaObligations(w *World, pkg, name string) ([]*Obligation, error) {
	return nil, fmt.Errorf("lemmas not built yet")
}

func locksetObligations(w *World, pkg string, run *checkRun) []*Obligation { return nil }

func structuralObligations(w *World, s StructSpec, run *checkRun) []*Obligation { return nil }

func (w *World) typeByKey(e *Enc, key string) types.Type { return e.tagTy[key] }
