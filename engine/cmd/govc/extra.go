package main

import (
	"fmt"
	"go/types"
	"path/filepath"

	"golang.org/x/tools/go/ssa"
)

// lemmaObligations: a lemma is a closed formula over the package's predicates, checked on an arbitrary heap.
func lemmaObligations(w *World, pkg, name string) ([]*Obligation, error) {
	path := modPath + "/" + pkg
	cf := w.contracts[path]
	if cf == nil {
		return nil, fmt.Errorf("package %s has no contract file", pkg)
	}
	sp := w.spkgs[path]
	var anyFn *ssa.Function
	for _, m := range sp.Members {
		if f, ok := m.(*ssa.Function); ok && len(f.Blocks) > 0 {
			if anyFn == nil || f.Name() < anyFn.Name() {
				anyFn = f
			}
		}
	}
	if anyFn == nil {
		return nil, fmt.Errorf("package %s has no function", pkg)
	}
	var out []*Obligation
	for _, l := range cf.Lemmas {
		if name != "*" && l.Name != name {
			continue
		}
		vc := newFnVC(w, anyFn, "lemma")
		vc.ct = nil
		vc.name = "lemma"
		vc.e.compSort[nextComp] = "Int"
		vc.mem0 = vc.e.newMem("base", vc.emit)
		vc.params = map[string]TV{}
		vc.ghostTy = map[string]types.Type{}
		env := vc.newEnv(vc.mem0, vc.mem0)
		tv, err := env.tr(l.Body)
		if err != nil {
			return nil, fmt.Errorf("lemma %s: %v", l.Name, err)
		}
		o := &Obligation{Name: filepath.Base(pkg) + ".lemma/" + l.Name, Func: filepath.Base(pkg) + ".lemma", Kind: "lemma", Prefix: len(vc.lines), Guard: "true", Goal: tv.t, Text: l.Text, vc: vc}
		out = append(out, o)
	}
	if len(out) == 0 {
		return nil, fmt.Errorf("no lemma %q in %s", name, pkg)
	}
	return out, nil
}

func locksetObligations(w *World, pkg string, run *checkRun) []*Obligation { return nil }

func structuralObligations(w *World, s StructSpec, run *checkRun) []*Obligation { return nil }

func (w *World) typeByKey(e *Enc, key string) types.Type { return e.tagTy[key] }
