package main

import (
	"fmt"
	"go/types"
	"path/filepath"
	"sort"
	"strings"

	"golang.org/x/tools/go/ssa"
)

// lemmaObligations: a lemma is a closed formula over the package's predicates, checked on an arbitrary heap.
func lemmaObligations(w *World, pkg, name string) ([]*Obligation, error) {
	path := modPath + "/" + pkg
	cf := w.contracts[path]
	if cf == nil {
		return nil, fmt.Errorf("package %s has no contract file", pkg)
	}
	sp := w.spkgs[path]
	var anyFn *ssa.Function
	for _, m := range sp.Members {
		if f, ok := m.(*ssa.Function); ok && len(f.Blocks) > 0 {
			if anyFn == nil || f.Name() < anyFn.Name() {
				anyFn = f
			}
		}
	}
	if anyFn == nil {
		return nil, fmt.Errorf("package %s has no function", pkg)
	}
	var out []*Obligation
	for _, l := range cf.Lemmas {
		if name != "*" && l.Name != name {
			continue
		}
		vc := newFnVC(w, anyFn, "lemma")
		vc.ct = nil
		vc.name = "lemma"
		vc.e.compSort[nextComp] = "Int"
		vc.mem0 = vc.e.newMem("base", vc.emit)
		vc.params = map[string]TV{}
		vc.ghostTy = map[string]types.Type{}
		env := vc.newEnv(vc.mem0, vc.mem0)
		tv, err := env.tr(l.Body)
		if err != nil {
			return nil, fmt.Errorf("lemma %s: %v", l.Name, err)
		}
		o := &Obligation{Name: filepath.Base(pkg) + ".lemma/" + l.Name, Func: filepath.Base(pkg) + ".lemma", Kind: "lemma", Prefix: len(vc.lines), Guard: "true", Goal: tv.t, Text: l.Text, vc: vc}
		out = append(out, o)
	}
	if len(out) == 0 {
		return nil, fmt.Errorf("no lemma %q in %s", name, pkg)
	}
	return out, nil
}

// constObligation: an obligation decided by a structural scan of the SSA (back end "dataflow"); it is
// still written out and pushed through the solver so that the evidence is uniform.
func constObligation(name, fn string, ok bool, text string) *Obligation {
	goal := "true"
	if !ok {
		goal = "false"
	}
	return &Obligation{Name: name, Func: fn, Kind: "dataflow", Guard: "true", Goal: goal, Text: text, vc: &FnVC{e: newEnc()}}
}

func allFunctions(w *World, pkgPath string) []*ssa.Function {
	sp := w.spkgs[pkgPath]
	var out []*ssa.Function
	seen := map[*ssa.Function]bool{}
	var walk func(f *ssa.Function)
	walk = func(f *ssa.Function) {
		if f == nil || seen[f] || len(f.Blocks) == 0 {
			return
		}
		seen[f] = true
		out = append(out, f)
		for _, a := range f.AnonFuncs {
			walk(a)
		}
	}
	for _, m := range sp.Members {
		switch x := m.(type) {
		case *ssa.Function:
			walk(x)
		case *ssa.Type:
			for _, t := range []types.Type{x.Type(), types.NewPointer(x.Type())} {
				ms := w.prog.MethodSets.MethodSet(t)
				for i := 0; i < ms.Len(); i++ {
					if f := w.prog.MethodValue(ms.At(i)); f != nil && f.Pkg == sp && f.Synthetic == "" {
						walk(f)
					}
				}
			}
		}
	}
	sort.Slice(out, func(i, j int) bool { return shortFuncName(out[i]) < shortFuncName(out[j]) })
	return out
}

func structuralObligations(w *World, s StructSpec, run *checkRun) []*Obligation {
	path := modPath + "/" + s.Pkg
	base := filepath.Base(s.Pkg)
	var out []*Obligation
	switch s.Kind {
	case "sinks_guarded":
		// every function of the package that calls a sink is either under a claimed contract that asserts at
		// that call, or a listed wrapper (whose callers are then the ones that assert)
		sinks := map[string]bool{}
		for _, k := range s.Sinks {
			sinks[k] = true
		}
		claimed := map[string]bool{}
		for _, fc := range run.cfg.Functions {
			if fc.Pkg == s.Pkg {
				claimed[fc.Name] = true
			}
		}
		for _, f := range allFunctions(w, path) {
			name := shortFuncName(f)
			called := map[string]bool{}
			for _, b := range f.Blocks {
				for _, in := range b.Instrs {
					if c, ok := in.(ssa.CallInstruction); ok {
						if n := calleeShort(c.Common()); sinks[n] {
							called[n] = true
						}
					}
				}
			}
			for _, sink := range sortedKeys(called) {
				oname := fmt.Sprintf("%s.%s/sink-guard[%s]", base, name, sink)
				if why, ok := s.Exempt[name]; ok {
					run.trusted["sink wrapper "+base+"."+name+" is exempt from the sink guard: "+why] = true
					continue
				}
				ct := w.contractFor(f)
				asserts := false
				if ct != nil {
					for _, ca := range ct.CallAssert {
						if ca.Callee == sink {
							asserts = true
						}
					}
				}
				out = append(out, constObligation(oname, base+"."+name, asserts && claimed[name],
					fmt.Sprintf("%s calls sink %s: it must be under a claimed contract with 'call %s assert ...'", name, sink, sink)))
			}
		}
	case "field_from_call":
		// for every value of struct s.Arg built in the package whose field s.Arg2 (e.g. Type) is the constant s.Func's
		// selector value, the field named in What... (see spec): Sinks[0] = discriminating field, Sinks[1] = its constant,
		// Sinks[2] = constrained field, Sinks[3] = function whose result it must be.
		if len(s.Sinks) != 4 {
			run.fail("structural", "field_from_call needs [discriminator field, constant, constrained field, function]", nil, "")
			break
		}
		dfield, dconst, cfield, fnName := s.Sinks[0], s.Sinks[1], s.Sinks[2], s.Sinks[3]
		found := 0
		for _, f := range allFunctions(w, path) {
			n := 0
			for _, b := range f.Blocks {
				for _, in := range b.Instrs {
					a, ok := in.(*ssa.Alloc)
					if !ok {
						continue
					}
					named, ok := a.Type().Underlying().(*types.Pointer).Elem().(*types.Named)
					if !ok || named.Obj().Name() != s.Arg {
						continue
					}
					st := named.Underlying().(*types.Struct)
					isDisc, okField, dyn := false, false, false
					if refs := a.Referrers(); refs != nil {
						for _, r := range *refs {
							fa, ok := r.(*ssa.FieldAddr)
							if !ok {
								continue
							}
							fname := st.Field(fa.Field).Name()
							if frefs := fa.Referrers(); frefs != nil {
								for _, fr := range *frefs {
									store, ok := fr.(*ssa.Store)
									if !ok || store.Addr != ssa.Value(fa) {
										continue
									}
									switch fname {
									case dfield:
										if c, ok := store.Val.(*ssa.Const); ok {
											if c.Value != nil && strings.Trim(c.Value.ExactString(), "\"") == dconst {
												isDisc = true
											}
										} else {
											dyn = true
										}
									case cfield:
										v := store.Val
										if mi, ok := v.(*ssa.MakeInterface); ok {
											v = mi.X
										}
										if call, ok := v.(*ssa.Call); ok {
											if callee, ok := call.Call.Value.(*ssa.Function); ok && shortFuncName(callee) == fnName {
												okField = true
											}
										}
									}
								}
							}
						}
					}
					if isDisc || dyn {
						n++
						found++
						text := fmt.Sprintf("%s{%s: %q} built in %s: %s must be the result of %s", s.Arg, dfield, dconst, shortFuncName(f), cfield, fnName)
						if dyn {
							text = fmt.Sprintf("%s built in %s with a non-constant %s: cannot be classified", s.Arg, shortFuncName(f), dfield)
						}
						o := constObligation(fmt.Sprintf("%s.%s/%s-%s#%d", base, shortFuncName(f), s.Arg, cfield, n), base+"."+shortFuncName(f), okField && !dyn, text)
						o.Pos = w.fset.Position(a.Pos())
						out = append(out, o)
					}
				}
			}
		}
		if found == 0 {
			run.fail("structural", fmt.Sprintf("no %s{%s: %q} construction site found in %s (vacuous)", s.Arg, dfield, dconst, s.Pkg), nil, "")
		}
	case "readonly_global":
		// no function other than the package initialiser stores to the global
		ok := true
		where := ""
		for _, f := range allFunctions(w, path) {
			if f.Name() == "init" || strings.HasPrefix(f.Name(), "init#") {
				continue
			}
			for _, b := range f.Blocks {
				for _, in := range b.Instrs {
					if st, isStore := in.(*ssa.Store); isStore {
						if g, isG := st.Addr.(*ssa.Global); isG && g.Name() == s.Arg {
							ok = false
							where = shortFuncName(f)
						}
					}
				}
			}
		}
		out = append(out, constObligation(fmt.Sprintf("%s.global/readonly[%s]", base, s.Arg), base+".global", ok, "package variable "+s.Arg+" is only assigned by its initialiser "+where))
	default:
		run.fail("structural", "unknown structural obligation kind "+s.Kind, nil, "")
	}
	return out
}

func (w *World) typeByKey(e *Enc, key string) types.Type { return e.tagTy[key] }
